(* C16Corr.v — decoding of the observations of harness/c16.go and comparison with RotationModel:
   decisions of the automatic sowing / harvest / irrigation / N blocks on the days of real runs, and the
   whole sowing/harvest event sequence of a run against the rotation cursor on the final date arrays.
   Trigger conditions are oracles: a decision must equal the model's for SOME trigger value; where the
   model does not depend on the trigger (before the window, forced at its end, outside the stage window)
   the comparison is sharp. *)
From Coq Require Import ZArith List Bool Floats Uint63.
From Hermes Require Import Num RotationModel SchedModel.
Import ListNotations.
Open Scope Z_scope.

Definition zi (x : int) : Z := Uint63.to_Z x.

(* z, SAAT before, SAAT1, SAAT2, ERNTE[k-1], SAAT after *)
Definition sow_check (r : int * int * int * int * int * int) : nat :=
  let '(z, sb, s1, s2, pe, sa) := r in
  let m b := auto_sow (zi z) (zi sb) (zi s1) (zi s2) (zi pe) b in
  if (m true =? zi sa) || (m false =? zi sa) then 0%nat else 1%nat.

Definition pair_eqb (a b : Z * Z) : bool := (fst a =? fst b) && (snd a =? snd b).

(* z, PhytoOut called, (ERNTE, ERNTE2) before/after, (SAAT, SAAT2) of the next entry before/after *)
Definition hdec_check (r : int * bool * (int * int * int * int) * (int * int * int * int)) : nat :=
  let '(z, called, (e0, e20, e1, e21), (n0, n20, n1, n21)) := r in
  let z := zi z in
  let before := (zi e0, zi e20) in let after := (zi e1, zi e21) in
  let nb := (zi n0, zi n20) in let na := (zi n1, zi n21) in
  if negb called then (if pair_eqb before after && pair_eqb nb na then 0 else 2)%nat
  else
    let m b := auto_harvest z (zi e0) (zi e20) b in
    let okE := pair_eqb (m true) after || pair_eqb (m false) after in
    let decided := (zi e0 =? 0) && negb (zi e1 =? 0) in
    let okN :=
      if decided then
        if zi e1 =? z then pair_eqb na (move_next_sowing z z (zi n0) (zi n20))
        else pair_eqb na nb || pair_eqb na (move_next_sowing z (z + 1) (zi n0) (zi n20))
      else pair_eqb na nb in
    ((if okE then 0 else 1) + (if okN then 0 else 4))%nat.

(* z, SAAT, INTWICK, IRRST1, IRRST2, DEFZSUM, IRRMAX, amount *)
Definition airr_check (r : int * int * (float * float * float) * (float * float * float)) : nat :=
  let '(z, saat, (intw, s1, s2), (defz, imax, amount)) := r in
  match auto_irr (zi z) (zi saat) intw s1 s2 true defz imax with
  | Some a => if float_same a amount then 0%nat else 2%nat
  | None => 1%nat
  end.

(* NFERTSIM before/after a Nitro call, candidates (demand, Nmin) of the three applications *)
Definition an_check (r : float * float * list (float * float)) : nat :=
  let '(pre, post, cand) := r in
  let amounts := map (fun c => auto_n (fst c) (snd c)) cand in
  let fix sums (l : list float) (acc : float) : list float :=
    match l with [] => [acc] | a :: t => sums t acc ++ sums t (add acc a) end in
  if existsb (fun s => float_same s post) (sums amounts pre) then 0%nat else 1%nat.

(* whole run: final SAAT/ERNTE/ERNTE2 arrays, BEGINN, ENDE, observed events (day, kind 0 sow / 1 harvest, entry) *)
Definition arr (l : list int) : Z -> Z := fun k => if k <? 0 then 0 else zi (nth (Z.to_nat k) l 0%uint63).

Definition rot_check (r : int * int * (list int * list int * list int) * list (int * int * int)) : nat :=
  let '(B, E, (sa, er, er2), evs) := r in
  let m := rot_run (arr sa) (arr er) (arr er2) (Z.to_nat (zi E - zi B + 1)) (zi B) 0 in
  let fix same (a : list (Z * rkind * Z)) (b : list (int * int * int)) : bool :=
    match a, b with
    | [], [] => true
    | (z, kd, k) :: a', (z', kd', k') :: b' =>
        (z =? zi z') && (k =? zi k') && (match kd with Sow => zi kd' =? 0 | Harv => zi kd' =? 1 end) && same a' b'
    | _, _ => false
    end in
  if same m evs then 0%nat else 1%nat.

(* ---- modelled triggers: the decision must equal the model's decision on the probed state ---- *)

Definition mk_sow_env (tagidx : int) (temps : list float)
  (f : float * float * float * float * float * float * float * float * float * float * float * float * float * (float * float)) : sow_env float :=
  let '(tagnum, window, temp, tjahrsum, tjahr, tslmin, tslmax, wg00, regen, regen_prev, dz, wmin0, wnor0, moi) := f in
  {| se_tagnum := tagnum; se_tagidx := zi tagidx; se_window := window; se_temps := temps; se_temp := temp;
     se_tjahrsum := tjahrsum; se_tjahr := tjahr; se_tslmin := tslmin; se_tslmax := tslmax; se_wg00 := wg00;
     se_regen := regen; se_regen_prev := regen_prev; se_dz := dz; se_wmin0 := wmin0; se_wnor0 := wnor0;
     se_minmoi := fst moi; se_maxmoi := snd moi |}.

(* z, SAAT before, SAAT1, SAAT2, ERNTE[k-1], SAAT after, state of the day *)
Definition sow_check2 (r : (int * int * int * int * int * int) * sow_env float) : nat :=
  let '((z, sb, s1, s2, pe, sa), e) := r in
  if auto_sow (zi z) (zi sb) (zi s1) (zi s2) (zi pe) (sow_cond e) =? zi sa then 0%nat else 1%nat.

Definition mk_harv_env (num nrentw : int)
  (f : float * float * float * float * float * float * float * float * float * float)
  (h : float * float * float * float * float * float * float * float) : harv_env float :=
  let '(sum0, tsum0, sm, tsm, tsn, wg00, regen, dz, wmin0, wnor0) := f in
  let '(minh, maxh, tagnum, r1, r2, r3, rainlim, rainact) := h in
  {| he_sum0 := sum0; he_tsum0 := tsum0; he_num := zi num; he_nrentw := zi nrentw; he_sum := sm; he_tsum := tsm;
     he_tsum_next := tsn; he_wg00 := wg00; he_regen := regen; he_dz := dz; he_wmin0 := wmin0; he_wnor0 := wnor0;
     he_minhmoi := minh; he_maxhmoi := maxh; he_tagnum := tagnum; he_r1 := r1; he_r2 := r2; he_r3 := r3;
     he_rainlim := rainlim; he_rainact := rainact |}.

(* harvest decision with the modelled condition (records of days on which PhytoOut ran with ERNTE = 0 and the crop
   beyond its first stage): 1 = (ERNTE, ERNTE2) differ, 4 = next entry's sowing date rule *)
Definition hdec_check2 (r : (int * (int * int * int * int) * (int * int * int * int)) * harv_env float) : nat :=
  let '((z, (e0, e20, e1, e21), (n0, n20, n1, n21)), env) := r in
  let z := zi z in
  let after := (zi e1, zi e21) in
  let nb := (zi n0, zi n20) in let na := (zi n1, zi n21) in
  let okE := pair_eqb (auto_harvest z (zi e0) (zi e20) (harvest_cond env)) after in
  let decided := (zi e0 =? 0) && negb (zi e1 =? 0) in
  let okN :=
    if decided then
      if zi e1 =? z then pair_eqb na (move_next_sowing z z (zi n0) (zi n20))
      else pair_eqb na nb || pair_eqb na (move_next_sowing z (z + 1) (zi n0) (zi n20))
    else pair_eqb na nb in
  ((if okE then 0 else 1) + (if okN then 0 else 4))%nat.

Fixpoint zip3 (a b c : list float) : list (float * float * float) :=
  match a, b, c with
  | x :: a', y :: b', z :: c' => (x, y, z) :: zip3 a' b' c'
  | _, _, _ => []
  end.

(* automatic irrigation on the probed state: fired? and amount *)
Definition airr_check2 (r : (int * int * int * bool) * (float * float * float * float * float * float * float * float * float * float)
                           * (list float * list float * list float) * float) : nat :=
  let '((z, saat, wurzmax, fired), (intw, s1, s2, imax, ilow, idep, regen, dz, rain1, rain2), (wg0, w, wmin), amount) := r in
  let e := {| ie_layers := zip3 wg0 w wmin; ie_wurzmax := zi wurzmax; ie_irrdep := idep; ie_regen := regen; ie_dz := dz;
              ie_irrlow := ilow; ie_rain1 := rain1; ie_rain2 := rain2 |} in
  match auto_irr_state (zi z) (zi saat) intw s1 s2 imax e with
  | Some a => if fired then (if float_same a amount then 0%nat else 2%nat) else 1%nat
  | None => if fired then 1%nat else 0%nat
  end.

(* one automatic-fertilisation call: 1 = DSUMM, 2 = NFERTSIM, 4 = NDOY1..3, 8 = ZTDG[AKF], 16 = which organic application fired *)
Definition mk_pay (l : list float) : org_pay float :=
  {| o_nsas := nth 0 l PrimFloat.zero; o_nlas := nth 1 l PrimFloat.zero; o_ndir := nth 2 l PrimFloat.zero |}.

Definition af_check (r : (int * int * int * int) * (bool * int * bool * int * int) * (float * float * float * float * float)
                         * (list float * list float * list float * list float) * (list float * list float * list float)
                         * (list float * int * bool * bool)) : nat :=
  let '((z, akf, saat, wurz), (prev_h, ztdg_prev, cur_s, orgdoy, ztdg), (intw, tagnum, regen, regen_prev, regen_next),
        (t5, c1, ndem, ndoy), (pay_prev, pay_cur, pools), (post, ztdg_post, h_fire, s_fire)) := r in
  let g l i := nth i l PrimFloat.zero in
  let e := {| ae_z := zi z; ae_akf := zi akf; ae_saat := zi saat; ae_intwick := intw; ae_tagnum := tagnum; ae_t5 := t5;
              ae_regen := regen; ae_regen_prev := regen_prev; ae_regen_next := regen_next; ae_c1 := c1; ae_wurz := zi wurz;
              ae_ndem1 := g ndem 0%nat; ae_ndem2 := g ndem 1%nat; ae_ndem3 := g ndem 2%nat;
              ae_prev_h := prev_h; ae_ztdg_prev := zi ztdg_prev; ae_pay_prev := mk_pay pay_prev;
              ae_cur_s := cur_s; ae_orgdoy := zi orgdoy; ae_pay_cur := mk_pay pay_cur |} in
  let s := {| as_ndoy1 := g ndoy 0%nat; as_ndoy2 := g ndoy 1%nat; as_ndoy3 := g ndoy 2%nat; as_ztdg := zi ztdg;
              as_nfos0 := g pools 0%nat; as_naos0 := g pools 1%nat; as_dsumm := g pools 2%nat; as_c10 := g pools 3%nat;
              as_nfertsim := g pools 4%nat |} in
  let '(s', ev) := autofert_day e s in
  let has k := existsb (fun x => fst x =? k) ev in
  let b (ok : bool) (v : nat) := if ok then 0%nat else v in
  let c1 := float_same (as_dsumm s') (g post 0%nat) in
  let c2 := float_same (as_nfertsim s') (g post 1%nat) in
  let c4 := float_same (as_ndoy1 s') (g post 2%nat) && float_same (as_ndoy2 s') (g post 3%nat) && float_same (as_ndoy3 s') (g post 4%nat) in
  let c8 := as_ztdg s' =? zi ztdg_post in
  let c16 := Bool.eqb (has 0) h_fire && Bool.eqb (has 1) s_fire in
  (b c1 1 + b c2 2 + b c4 4 + b c8 8 + b c16 16)%nat.

(* harvest: cursor advance, ZTDG[k], skip: z, k, org_h k, ORGDOY[k], SAAT2[k+1], AUTOMAN, ZTDG[k] before; observed advance, ZTDG[k] after, EINTE[NTIL+1] after *)
Definition hcur_check (r : (int * int * bool * int * int * bool * int) * (int * int * int)) : nat :=
  let '((z, k, orgh, orgdoy, s2n, automan, zt), (adv, zt', einte)) := r in
  let '(k', ztm, skipped) := harvest_cursor (zi z) (zi k) (fun _ => orgh) (fun _ => zi orgdoy) (fun _ => zi s2n) automan (zi zt) in
  let c1 := k' - zi k =? zi adv in
  let c2 := ztm =? zi zt' in
  let c4 := negb skipped || (zi einte =? zi z + 1) in
  ((if c1 then 0 else 1) + (if c2 then 0 else 2) + (if c4 then 0 else 4))%nat.

(* crop skip against the same harvest call without skip: (NAOS[0], DSUMM, NFOS[0]) without skip, (NSAS, NLAS, NDIR) of entry k, real values *)
Definition skip_check (r : (float * float * float) * (float * float * float) * (float * float * float)) : nat :=
  let '((a, d, f), (nsas, nlas, ndir), (a', d', f')) := r in
  let '(ma, md, mf) := skip_payload a d f nsas nlas ndir in
  if float_same ma a' && float_same md d' && float_same mf f' then 0%nat else 1%nat.

(* tillage date of a Nitro call in sub-step 1: z, SAAT[AKF], ERNTE[AKF], EINTE[NTIL+1] before, AUTOHAR; observed EINTE of that slot
   after the call, cursor advanced? *)
Definition till_check (r : (int * int * int * int * bool) * (int * bool)) : nat :=
  let '((z, saat, ernte, einte, autohar), (einte', fired)) := r in
  match till_adapt (zi z) (zi saat) (zi ernte) (zi einte) autohar with
  | Some e => if (e =? zi einte') && Bool.eqb fired (zi z =? e + 1) then 0%nat else 1%nat
  | None => 2%nat
  end.

Fixpoint mismatches {A} (chk : A -> nat) (i : nat) (l : list A) : list (nat * nat) :=
  match l with
  | [] => []
  | c :: r => let v := chk c in
              if Nat.eqb v 0 then mismatches chk (S i) r else (i, v) :: mismatches chk (S i) r
  end.
