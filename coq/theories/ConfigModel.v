(* ConfigModel.v — executable model of the configuration overlay of Hermes2Go:
     hermes/run.go:37-43      batch-line tokens -> argument map  (strings.Split(token,"="), exactly two
                              parts, later duplicate wins)
     hermes/config.go:82-98   readConfig: NewDefaultConfig(), overlaid by the decoded project file,
                              overlaid by commandlineOverride; log.Fatalf on an override error
     hermes/config.go:150-192 commandlineOverride: for every map entry (Go iterates a map in an
                              UNSPECIFIED order) FieldByName, then per reflect.Kind:
                              Float64 -> strconv.ParseFloat (error: return err), Int -> strconv.ParseInt
                              base 10, 64 bit (error: return err), String -> verbatim, Bool -> the
                              featureSwitchStrToID table (unknown spelling: field untouched)
     hermes/config.go:127-143 the three empty-string fix-ups after the override.
   No proofs here.  The schema (field name, kind, default) is NOT written here: it is regenerated from
   /repo by reflection on every run (ConfigSchema.v); everything below is for an arbitrary schema.
   The YAML decoder is not modelled: the project file enters as the map field -> decoded value.
   strconv.ParseFloat is an oracle [pf] (string -> bits of the float64, None = error). *)
From Coq Require Import ZArith List Bool String Ascii.
Import ListNotations.
Open Scope string_scope.

Inductive kind := KFloat | KInt | KStr | KBool | KOther.   (* KOther: a kind commandlineOverride has no branch for *)

Inductive value :=
| VFloat (bits : Z)      (* math.Float64bits *)
| VInt (z : Z)
| VStr (s : string)
| VBool (b : bool).

Definition field := (string * kind * value)%type.          (* Go field name, kind, current value *)
Definition config := list field.                           (* in declaration order *)
Definition schema := list field.                           (* value = default of NewDefaultConfig() *)

Definition names (c : config) : list string := map (fun f : field => fst (fst f)) c.

(* ---------- strconv.ParseInt(s, 10, 64) ---------- *)
Definition digit_val (c : ascii) : option Z :=
  let n := Z.of_N (N_of_ascii c) in
  if (48 <=? n)%Z && (n <=? 57)%Z then Some (n - 48)%Z else None.

Fixpoint parse_digits (acc : Z) (s : string) : option Z :=
  match s with
  | EmptyString => Some acc
  | String c r => match digit_val c with Some d => parse_digits (acc * 10 + d)%Z r | None => None end
  end.

Definition parse_uint (s : string) : option Z :=
  match s with EmptyString => None | _ => parse_digits 0 s end.

Definition parse_int64 (s : string) : option Z :=
  let r := match s with
           | String "+" t => parse_uint t
           | String "-" t => option_map Z.opp (parse_uint t)
           | _ => parse_uint s
           end in
  match r with
  | Some z => if (-9223372036854775808 <=? z)%Z && (z <=? 9223372036854775807)%Z then Some z else None  (* ErrRange *)
  | None => None
  end.

(* ---------- featureSwitchStrToID (config.go:297-306) ---------- *)
Definition switch_table (s : string) : option bool :=
  if (s =? "1") || (s =? "on") || (s =? "yes") || (s =? "true") then Some true
  else if (s =? "0") || (s =? "off") || (s =? "no") || (s =? "false") then Some false
  else None.

(* ---------- run.go:37-43 ---------- *)
(* strings.Split(s, "=") *)
Fixpoint split_eq (s : string) : list string :=
  match s with
  | EmptyString => [EmptyString]
  | String c r =>
      if Ascii.eqb c "="%char then EmptyString :: split_eq r
      else match split_eq r with
           | h :: t => String c h :: t
           | [] => [String c EmptyString]
           end
  end.

Definition token_kv (t : string) : option (string * string) :=
  match split_eq t with [k; v] => Some (k, v) | _ => None end.

(* argValues[k] = v : a Go map as an association list with unique keys *)
Fixpoint upsert (k v : string) (m : list (string * string)) : list (string * string) :=
  match m with
  | [] => [(k, v)]
  | (k', v') :: r => if k' =? k then (k, v) :: r else (k', v') :: upsert k v r
  end.

Definition arg_step (m : list (string * string)) (t : string) : list (string * string) :=
  match token_kv t with Some (k, v) => upsert k v m | None => m end.

Definition arg_map (tokens : list string) : list (string * string) := fold_left arg_step tokens [].

(* the value the batch line gives for key k: the LAST well-formed token k=v *)
Fixpoint arg_get (tokens : list string) (k : string) : option string :=
  match tokens with
  | [] => None
  | t :: r =>
      match arg_get r k with
      | Some v => Some v
      | None => match token_kv t with
                | Some (k', v) => if k' =? k then Some v else None
                | None => None
                end
      end
  end.

Fixpoint assoc {A} (k : string) (m : list (string * A)) : option A :=
  match m with [] => None | (k', v) :: r => if k' =? k then Some v else assoc k r end.

(* the well-formed tokens of a batch line, in order *)
Definition kvs (tokens : list string) : list (string * string) :=
  flat_map (fun t => match token_kv t with Some p => [p] | None => [] end) tokens.

(* reflect's FieldByName: the first field of that name *)
Fixpoint kind_of (k : string) (cfg : config) : option kind :=
  match cfg with [] => None | (n, kd, _) :: r => if n =? k then Some kd else kind_of k r end.
Fixpoint get (k : string) (cfg : config) : option value :=
  match cfg with [] => None | (n, _, v) :: r => if n =? k then Some v else get k r end.

(* ---------- src/hermes2go/hermes_main.go:228  args := strings.Fields(line) ----------
   the batch line is split around every run of white space (ASCII: blank, \t, \n, \v, \f, \r; batch files are
   ASCII), leading and trailing white space yields no token *)
Definition is_ws (c : ascii) : bool :=
  let n := N_of_ascii c in (N.eqb n 32 || N.eqb n 9 || N.eqb n 10 || N.eqb n 11 || N.eqb n 12 || N.eqb n 13)%N.

Fixpoint fields_aux (cur : string) (s : string) : list string :=
  match s with
  | EmptyString => match cur with EmptyString => [] | _ => [cur] end
  | String c r =>
      if is_ws c then match cur with EmptyString => fields_aux EmptyString r | _ => cur :: fields_aux EmptyString r end
      else fields_aux (cur ++ String c EmptyString) r
  end.
Definition fields (line : string) : list string := fields_aux EmptyString line.

(* vocabulary for "the arguments are separated by arbitrary white space": t1 sep1 t2 sep2 ... tn sepn *)
Fixpoint all_ws (s : string) : bool := match s with EmptyString => true | String c r => is_ws c && all_ws r end.
Fixpoint no_ws (s : string) : bool := match s with EmptyString => true | String c r => negb (is_ws c) && no_ws r end.
Definition tok_ok (t : string) : Prop := no_ws t = true /\ t <> EmptyString.
Fixpoint render (pairs : list (string * string)) : string :=
  match pairs with [] => EmptyString | (t, sep) :: r => t ++ sep ++ render r end.
(* every separator is white space; all but the last are non-empty *)
Fixpoint seps_ok (pairs : list (string * string)) : Prop :=
  match pairs with
  | [] => True
  | (_, sep) :: r => all_ws sep = true /\ (r <> [] -> sep <> EmptyString) /\ seps_ok r
  end.

(* ---------- hermes/run.go:37-81: the glue between the batch line and readConfig ----------
   Run builds ONE argument map, reads project/plotNr/... from it, hands it to ParseCropOverwrites (which picks
   CropFile=... and c_...=... and must only READ the map) and then hands the SAME map to readConfig.
   crop_view models what ParseCropOverwrites returns besides the map it was given. *)
Definition crop_view (m : list (string * string)) : list (string * string) :=
  match assoc "CropFile" m with
  | None => []
  | Some _ => filter (fun e : string * string => prefix "c_" (fst e)) m
  end.
Definition crop_step (m : list (string * string)) : list (string * string) * list (string * string) := (crop_view m, m).
Definition glue_args (line : string) : list (string * string) := snd (crop_step (arg_map (fields line))).

Section Override.
  Variable pf : string -> option Z.            (* strconv.ParseFloat(s, 64): bits, None = error *)

  Inductive presult := PSet (v : value) | PKeep | PFatal.

  (* config.go:160-186, one field of kind kd, argument text s *)
  Definition parse_kind (kd : kind) (s : string) : presult :=
    match kd with
    | KFloat => match pf s with Some b => PSet (VFloat b) | None => PFatal end
    | KInt => match parse_int64 s with Some z => PSet (VInt z) | None => PFatal end
    | KStr => PSet (VStr s)
    | KBool => match switch_table s with Some b => PSet (VBool b) | None => PKeep end
    | KOther => PKeep
    end.

  (* one iteration of the loop config.go:156-189: FieldByName(k) (first field of that name; none: nothing) *)
  Fixpoint set_field (k s : string) (cfg : config) : option config :=
    match cfg with
    | [] => Some []
    | (n, kd, cur) :: r =>
        if n =? k then
          match parse_kind kd s with
          | PSet v => Some ((n, kd, v) :: r)
          | PKeep => Some cfg
          | PFatal => None
          end
        else option_map (cons (n, kd, cur)) (set_field k s r)
    end.

  (* the loop over the map entries in the order [entries]; None = return err -> log.Fatalf *)
  Fixpoint override (entries : list (string * string)) (cfg : config) : option config :=
    match entries with
    | [] => Some cfg
    | (k, s) :: r => match set_field k s cfg with Some c => override r c | None => None end
    end.

  (* config.go:83-94: defaults overlaid by the decoded file *)
  Definition base (s : schema) (f : string -> option value) : config :=
    map (fun fd : field => let '(n, kd, d) := fd in (n, kd, match f n with Some v => v | None => d end)) s.

  Definition effective (s : schema) (f : string -> option value) (entries : list (string * string)) : option config :=
    override entries (base s f).


  (* ---------- config.go:127-143 ---------- *)
  Definition str_of (v : option value) : string := match v with Some (VStr s) => s | _ => "" end.

  Fixpoint put (k : string) (v : value) (cfg : config) : config :=
    match cfg with
    | [] => []
    | (n, kd, cur) :: r => if n =? k then (n, kd, v) :: r else (n, kd, cur) :: put k v r
    end.

  Definition drop1 (s : string) : string := match s with String _ r => r | EmptyString => EmptyString end.

  Definition fixup (root : string) (cfg : config) : config :=
    let cfg := if str_of (get "WeatherFolder" cfg) =? "" then put "WeatherFolder" (VStr "Weather") cfg else cfg in
    let cfg := if str_of (get "WeatherRootFolder" cfg) =? "" then put "WeatherRootFolder" (VStr root) cfg else cfg in
    let w := str_of (get "WeatherRootFolder" cfg) in
    let cfg := if prefix "./" w || prefix ".\" w       (* strings.TrimPrefix(w, ".") drops the dot *)
               then put "WeatherRootFolder" (VStr (root ++ drop1 w)) cfg else cfg in
    if str_of (get "ResultFileExt" cfg) =? ""
    then put "ResultFileExt" (VStr (match get "ResultFileFormat" cfg with Some (VInt 1) => "csv" | _ => "RES" end)) cfg
    else cfg.

  (* readConfig as a whole, the map iterated in the order arg_map produces *)
  Definition read_config (root : string) (s : schema) (f : string -> option value) (tokens : list string) : option config :=
    option_map (fixup root) (effective s f (arg_map tokens)).
  (* ---------- run.go:90-96: a project WITHOUT config.yml ----------
     if os.Stat(config.yml) fails, Run writes NewDefaultConfig() to it and only then calls readConfig.
     The state of the project between runs is the decoded content of config.yml (None: no file);
     the file generated from the defaults decodes to the defaults. *)
  Definition default_file (s : schema) : string -> option value := fun k => get k s.

  Definition autogen (s : schema) (st : option (string -> option value)) : string -> option value :=
    match st with Some f => f | None => default_file s end.

  (* one Run: project file afterwards, effective configuration of this run *)
  Definition run_step (s : schema) (st : option (string -> option value)) (entries : list (string * string))
    : option (string -> option value) * option config :=
    (Some (autogen s st), effective s (autogen s st) entries).

  (* several Runs on the same project one after the other (same session or later processes) *)
  Fixpoint run_seq (s : schema) (st : option (string -> option value)) (runs : list (list (string * string)))
    : list (option config) :=
    match runs with
    | [] => []
    | es :: r => let '(st', c) := run_step s st es in c :: run_seq s st' r
    end.

  (* the configuration the LAST of the batch lines [hist ++ [tokens]] runs with, fix-ups included *)
  Definition read_config_seq (root : string) (s : schema) (st : option (string -> option value))
             (hist : list (list string)) (tokens : list string) : option config :=
    option_map (fixup root) (last (run_seq s st (map arg_map (hist ++ [tokens]))) None).
  (* one batch line of the real program, from the line text: tokenise, build the map, crop step, readConfig *)
  Definition line_config (s : schema) (f : string -> option value) (line : string) : option config :=
    effective s f (glue_args line).
End Override.
