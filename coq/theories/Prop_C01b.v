(* Prop_C01b.v — property C01 at the level of the whole simulated day, stated about DayWaterModel:
   the composition (run.go's glue: irrigation added to the rain, Evatra's structural part, sub-step
   choice, STEPS times Water) that DayWaterCorr compares bit for bit with whole traced days of real
   runs — read over the reals.  Only statements here. *)
From Coq Require Import ZArith Reals List Bool.
From Hermes Require Import Num RUtil WaterModel WaterProofs EvatraModel DayWaterModel DayWaterProofs.
Local Open Scope R_scope.

(* The surface term of the balance: Evatra's FLUSS0 is the rain it was given minus the actual
   evaporation it computed, for every input. *)
Theorem C01_surface_flux : forall x : evatra_in (T:=R),
  eo_fluss0 (evatra_struct x) = ei_regen x - eo_eta (evatra_struct x).
Proof. exact evatra_fluss0_lemma. Qed.

(* The day, as the property states it: for every number of layers n >= 1, every start state and every
   sub-step count k >= 1 of length 1/k the day is split into,
     storage(end) - storage(start) = (rain + irrigation) - actual evaporation - root uptake (after the
       availability clamp) - sum over the sub-steps of the flux through the lower boundary
       - sum over the sub-steps of the drain outflow. *)
Theorem C01_day_balance_full : forall (x : day_in (T:=R)) (n k : nat),
  day_wf x n ->
  let o := day_water x in
  (1 <= k)%nat -> Z.to_nat (do_steps o) = k -> do_wdt o = / INR k ->
  storage (firstn n (do_wg1 o)) - storage (di_wg1 x) =
    (di_rain x + irrigation_of x) - eo_eta (do_ev o) - Rsum (day_tp o)
    - Rsum (map (fun s => last (wo_q1 s) 0) (do_outs o))
    - Rsum (map (fun s => wo_qdrain s) (do_outs o)).
Proof. exact day_balance_full_lemma. Qed.

(* The model's own sub-step choice (run.go:499-529,581-586 in exact arithmetic) covers the day:
   STEPS >= 1, WDT = 1/STEPS, STEPS * WDT = 1 — for every state, no hypothesis. *)
Theorem C01_substeps_cover_day : forall x : day_in (T:=R),
  let o := day_water x in
  (1 <= do_steps o)%Z /\ do_wdt o = / IZR (do_steps o) /\ IZR (do_steps o) * do_wdt o = 1.
Proof. exact day_steps_lemma. Qed.

(* Hence the day balance for the sub-step count the model chooses itself: only the array shapes are
   assumed. *)
Theorem C01_day_balance_own_choice : forall (x : day_in (T:=R)) (n : nat),
  day_wf x n ->
  let o := day_water x in
  storage (firstn n (do_wg1 o)) - storage (di_wg1 x) =
    (di_rain x + irrigation_of x) - eo_eta (do_ev o) - Rsum (day_tp o)
    - Rsum (map (fun s => last (wo_q1 s) 0) (do_outs o))
    - Rsum (map (fun s => wo_qdrain s) (do_outs o)).
Proof. exact day_balance_own_choice_lemma. Qed.

(* non-vacuity: a 3-layer day with rain, a due irrigation of 20 mm and a crop satisfies the hypothesis;
   by C01_substeps_cover_day the hypotheses on k of C01_day_balance_full are met by k := STEPS *)
Example C01b_nonvacuous : day_wf example_day 3.
Proof. exact example_day_wf. Qed.

Print Assumptions C01_surface_flux.
Print Assumptions C01_day_balance_full.
Print Assumptions C01_substeps_cover_day.
Print Assumptions C01_day_balance_own_choice.
