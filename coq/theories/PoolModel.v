(* PoolModel.v — model of hermes/path.go:198-233 (FilePool): the only mutable state that
   concurrent runs of one session share.  Every Get/Close runs entirely under fp.mux
   (path.go:205/224, 230/232), so a concurrent history is a LIST of operations (the order
   in which the mutex was acquired); "any interleaving" = "any list".

   disk : the content os.ReadFile returns for a path (the input files are not written
   during a session).  A failing os.ReadFile is log.Fatal (path.go:211-217) = process exit:
   no further operation happens, so there is nothing to state about returned values; the
   model therefore takes [disk] total on the paths that are requested. *)
From stdpp Require Import gmap.

Section Pool.
  Context {path bytes : Type} `{Countable path}.
  Variable disk : path -> bytes.
  Variable nilb : bytes.           (* Go: value of a map lookup that misses (nil slice) *)

  Definition pool := gmap path bytes.

  (* path.go:204-226
       if _, ok := fp.list[p]; !ok { data := os.ReadFile(p); fp.list[p] = data }
       return fp.list[p]                                                          *)
  Definition get (pl : pool) (p : path) : pool * bytes :=
    let pl' := match pl !! p with
               | Some _ => pl
               | None => <[p := disk p]> pl
               end in
    (pl', default nilb (pl' !! p)).

  (* path.go:229-233  fp.list = nil *)
  Definition close (pl : pool) : pool := ∅.

  Inductive op := OGet (p : path) | OClose.

  (* one history: the operations in mutex-acquisition order; returns the final pool and,
     for every OGet, the pair (requested path, returned bytes) *)
  Fixpoint run_ops (pl : pool) (ops : list op) : pool * list (path * bytes) :=
    match ops with
    | [] => (pl, [])
    | OGet p :: r => let '(pl1, b) := get pl p in
                     let '(pl2, out) := run_ops pl1 r in (pl2, (p, b) :: out)
    | OClose :: r => run_ops (close pl) r
    end.

  (* the invariant: everything cached is what is on disk *)
  Definition pool_ok (pl : pool) : Prop := forall p b, pl !! p = Some b -> b = disk p.
End Pool.
