(* DayNitroProofs.v — day-level lemmas about DayNitroModel read over the reals (properties C02 / C07):
   the nitrogen budget of a whole simulated day by induction over its sub-steps, re-using the per-kernel lemmas
   of NitroProofs (nmove_balance_lemma, slack_nonneg, uptake_once_lemma, mineral_layer_books, denitr_books,
   denitmo_books, mix_pool_conserves, mix_c1_only_adds). *)
From Coq Require Import ZArith Reals List Bool Lia Lra.
From Hermes Require Import Num RUtil NitroModel NitroProofs DayNitroModel.
Import ListNotations.
Local Open Scope R_scope.

(* ---------------- small list facts ---------------- *)
Lemma Rsum_repeat0 k : Rsum (repeat 0 k) = 0.
Proof. induction k as [|k IH]; cbn; [reflexivity | rewrite IH; lra]. Qed.

Lemma Rsum_split (l : list R) k : Rsum l = Rsum (firstn k l) + Rsum (skipn k l).
Proof. rewrite <- (firstn_skipn k l) at 1. apply Rsum_app. Qed.

Lemma Forall_firstn' {A} (P : A -> Prop) k : forall l, Forall P l -> Forall P (firstn k l).
Proof.
  induction k as [|k IH]; intros l H; [constructor|]. destruct l as [|a l]; [constructor|].
  cbn. apply Forall_inv in H as Ha. apply Forall_inv_tail in H. constructor; [exact Ha | apply IH; assumption].
Qed.

Lemma nonneg_Forall (l : list R) : (forall z, (z < length l)%nat -> 0 <= get 0 l z) -> Forall (fun c => 0 <= c) l.
Proof. intros H. apply Forall_nth. intros i d Hi. rewrite (nth_indep l d 0 Hi). apply H, Hi. Qed.

Lemma map_fst_id {A B} : forall (l1 : list A) (l2 : list B), length l1 = length l2 ->
  map fst (map (fun '(a, b) => (a, b)) (combine l1 l2)) = l1.
Proof.
  induction l1 as [|a l1 IH]; intros [|b l2] H; cbn in *; try lia; [reflexivity|]. f_equal. apply IH. lia.
Qed.

(* ---------------- start-of-day additions (run.go:455-475) ---------------- *)
Definition day_irr (x : dayn_in (T:=R)) : R :=
  if dy_add x && dy_irr x && RI.ltb 0 (dy_brkz x * dy_breg x * (1 / 100)) then dy_brkz x * dy_breg x * (1 / 100) else 0.
Definition day_dep (x : dayn_in (T:=R)) : R := if dy_add x then dy_depos x / 365 * dy_dt x else 0.
Definition d_c1a (x : dayn_in (T:=R)) : list R :=
  add_top (dy_add x) (dy_irr x) (dy_brkz x) (dy_breg x) (dy_depos x) (dy_dt x) (dy_c1 x).
(* what the clamp after the deposition added *)
Definition slack_add (x : dayn_in (T:=R)) : R := Rsum (d_c1a x) - (Rsum (dy_c1 x) + day_irr x + day_dep x).

Lemma dec_1_2 : @dec R RNum 1 2 = 1 / 100.
Proof. unfold dec. cbn. lra. Qed.

Lemma add_top_length add irr brkz breg depos dt (c1 : list R) :
  length (@add_top R RNum add irr brkz breg depos dt c1) = length c1.
Proof. unfold add_top. destruct add; [apply upd_length | reflexivity]. Qed.

Lemma slack_add_nonneg x : (0 < length (dy_c1 x))%nat -> 0 <= slack_add x.
Proof.
  intros Hl. unfold slack_add, d_c1a, add_top, day_irr, day_dep, irr_n. rewrite dec_1_2. rsimp.
  destruct (dy_add x); cbn [andb]; [|lra].
  rewrite Rsum_upd by exact Hl.
  destruct (dy_irr x); cbn [andb];
    repeat match goal with |- context [RI.ltb ?a ?b] => destruct (RI.ltb_spec a b) end; lra.
Qed.

(* ---------------- tillage (nitro.go:245-281) ---------------- *)
Lemma Int_part_IZR k : Int_part (IZR k) = k.
Proof.
  unfold Int_part. rewrite <- (up_tech (IZR k) k); [lia | lra | rewrite plus_IZR; lra].
Qed.

Lemma round_is_nat (v : R) : 0 <= v ->
  exists k : nat, @roundv R RNum v = INR k /\ Z.to_nat (@truncZ R RNum (@roundv R RNum v)) = k.
Proof.
  intros Hv. cbn. unfold RI.round. destruct (Rle_dec 0 v) as [_|N]; [|lra].
  set (ip := Int_part (v + / 2)).
  assert (Hip : (0 <= ip)%Z).
  { destruct (base_Int_part (v + / 2)) as [_ H2]. fold ip in H2.
    assert (IZR (-1) < IZR ip) by (cbn; lra). apply lt_IZR in H. lia. }
  exists (Z.to_nat ip). split.
  - rewrite INR_IZR_INZ, Z2Nat.id by exact Hip. reflexivity.
  - unfold RI.trunc_Z. destruct (Rle_dec 0 (IZR ip)) as [_|N]; [rewrite Int_part_IZR; reflexivity|].
    exfalso. apply N. apply IZR_le in Hip. exact Hip.
Qed.

Definition d_nfos1 (x : dayn_in (T:=R)) := add_first (dy_fert x) (dy_nsas x) (dy_nfos x).
Definition d_naos1 (x : dayn_in (T:=R)) := add_first (dy_fert x) (dy_nlas x) (dy_naos x).
Definition d_till (x : dayn_in (T:=R)) :=
  till_stage (dy_till x) (dy_eint x) (dy_tilart x) (d_nfos1 x) (d_naos1 x) (dy_minfos x) (dy_minaos x) (d_c1a x).
Definition d_nfos2 x := let '(a, _, _, _, _) := d_till x in a.
Definition d_naos2 x := let '(_, a, _, _, _) := d_till x in a.
Definition d_minfos2 x := let '(_, _, a, _, _) := d_till x in a.
Definition d_minaos2 x := let '(_, _, _, a, _) := d_till x in a.
Definition d_c1b x := let '(_, _, _, _, a) := d_till x in a.
(* what the clamp of the mixed mineral N added *)
Definition slack_till (x : dayn_in (T:=R)) : R := Rsum (d_c1b x) - Rsum (d_c1a x).

Lemma set_first_length {A} m (v : A) : forall l, length (set_first m v l) = length l.
Proof. induction m as [|m IH]; intros [|a l]; cbn; auto. Qed.

Lemma mix_pool_any (mt : R) m (pool : list R) :
  (m <= length pool)%nat -> mt = INR m ->
  Rsum (@mix_pool R RNum mt m pool) = Rsum pool /\ length (@mix_pool R RNum mt m pool) = length pool.
Proof.
  intros Hm E. split; [|apply set_first_length].
  destruct m as [|m]; [reflexivity|]. subst mt. apply mix_pool_conserves. lia.
Qed.

Lemma mix_c1_any (mt : R) m (c1 : list R) :
  (m <= length c1)%nat -> mt = INR m ->
  Rsum c1 <= Rsum (@mix_c1 R RNum mt m c1) /\ length (@mix_c1 R RNum mt m c1) = length c1.
Proof.
  intros Hm E. split; [|apply set_first_length].
  destruct m as [|m]; [cbn; lra|]. subst mt. apply mix_c1_only_adds. lia.
Qed.

Lemma till_stage_books fire eint tilart (nfos naos minfos minaos c1 : list R) n :
  length nfos = n -> length naos = n -> length minfos = n -> length minaos = n -> length c1 = n ->
  (fire = true -> (Z.to_nat (@truncZ R RNum (tillage_depth eint)) <= n)%nat) ->
  let '(nfos2, naos2, minfos2, minaos2, c1b) := @till_stage R RNum fire eint tilart nfos naos minfos minaos c1 in
  Rsum nfos2 = Rsum nfos /\ Rsum naos2 = Rsum naos /\ Rsum minfos2 = Rsum minfos /\ Rsum minaos2 = Rsum minaos /\
  Rsum c1 <= Rsum c1b /\
  length nfos2 = n /\ length naos2 = n /\ length minfos2 = n /\ length minaos2 = n /\ length c1b = n.
Proof.
  intros L1 L2 L3 L4 L5 Hm. unfold till_stage. destruct fire; [|repeat split; try assumption; lra].
  specialize (Hm eq_refl). unfold tillage_mix.
  destruct (gtb eint zero && (tilart =? 1)%Z) eqn:E; [|repeat split; try assumption; lra].
  apply andb_true_iff in E as [E _]. apply gtbR in E. rsimp.
  assert (Hv : 0 <= eint / 10) by (apply Rmult_le_pos; [lra | left; apply Rinv_0_lt_compat; lra]).
  unfold tillage_depth in *. rsimp.
  destruct (round_is_nat (eint / 10) Hv) as (k & Ek & Et). rewrite Et in *.
  destruct (mix_pool_any (roundv (eint / 10)) k nfos ltac:(lia) Ek) as [A1 B1].
  destruct (mix_pool_any (roundv (eint / 10)) k naos ltac:(lia) Ek) as [A2 B2].
  destruct (mix_pool_any (roundv (eint / 10)) k minfos ltac:(lia) Ek) as [A3 B3].
  destruct (mix_pool_any (roundv (eint / 10)) k minaos ltac:(lia) Ek) as [A4 B4].
  destruct (mix_c1_any (roundv (eint / 10)) k c1 ltac:(lia) Ek) as [A5 B5].
  repeat split; try assumption; congruence.
Qed.

(* ---------------- mineral over its layers (nitro.go:569-688) ---------------- *)
Lemma mineral_layers_books (ls : list (mineral_layer_in (T:=R))) : forall z g,
  let '(os, g') := mineral_layers z ls g in
  length os = length ls /\
  Rsum (map mo_naos os) + Rsum (map mo_minaos os) = Rsum (map ml_naos ls) + Rsum (map ml_minaos ls) /\
  Rsum (map mo_nfos os) + Rsum (map mo_minfos os) = Rsum (map ml_nfos ls) + Rsum (map ml_minfos ls) /\
  mg_dsumm g' = mg_dsumm g /\ mg_nh4sum g' = mg_nh4sum g /\
  Rsum (map mo_dn os) = (Rsum (map mo_minaos os) - Rsum (map ml_minaos ls))
                        + (Rsum (map mo_minfos os) - Rsum (map ml_minfos ls))
                        + (mg_ums g' - mg_ums g) - (mg_n2onitsum g' - mg_n2onitsum g).
Proof.
  induction ls as [|l r IH]; intros z g; cbn [mineral_layers].
  - cbn. repeat split; lra.
  - pose proof (mineral_layer_books z l g) as H1. destruct (mineral_layer z l g) as [o g1].
    specialize (IH (S z) g1). destruct (mineral_layers (S z) r g1) as [os g2].
    destruct H1 as (A1 & A2 & _ & _ & A5 & _ & A7 & A8 & A9).
    destruct IH as (B0 & B1 & B2 & B3 & B4 & B5).
    cbn [map Rsum length]. repeat split; try lia; try lra; congruence.
Qed.

Lemma mk_mls_facts (envs : list (menv (T:=R))) : forall wg0 naos nfos minaos minfos,
  (length envs <= length naos)%nat -> (length envs <= length nfos)%nat ->
  (length envs <= length minaos)%nat -> (length envs <= length minfos)%nat ->
  let ls := mk_mls envs wg0 naos nfos minaos minfos in
  length ls = length envs /\
  map ml_naos ls = firstn (length envs) naos /\ map ml_nfos ls = firstn (length envs) nfos /\
  map ml_minaos ls = firstn (length envs) minaos /\ map ml_minfos ls = firstn (length envs) minfos.
Proof.
  induction envs as [|e er IH]; intros wg0 naos nfos minaos minfos H1 H2 H3 H4; cbn [mk_mls length].
  - cbn. repeat split; reflexivity.
  - destruct naos as [|a1 naos]; [cbn in H1; lia|]. destruct nfos as [|a2 nfos]; [cbn in H2; lia|].
    destruct minaos as [|a3 minaos]; [cbn in H3; lia|]. destruct minfos as [|a4 minfos]; [cbn in H4; lia|].
    cbn [hd tl map firstn length ml_naos ml_nfos ml_minaos ml_minfos] in *.
    destruct (IH (tl wg0) naos nfos minaos minfos ltac:(lia) ltac:(lia) ltac:(lia) ltac:(lia)) as (B0 & B1 & B2 & B3 & B4).
    repeat split; try (f_equal; assumption).
Qed.

Lemma put_first_sum {A} (f : A -> R) (os : list A) (pool : list R) :
  Rsum (put_first f os pool) - Rsum pool = Rsum (map f os) - Rsum (firstn (length os) pool).
Proof. unfold put_first. rewrite Rsum_app, (Rsum_split pool (length os)). lra. Qed.

Lemma dn_of_facts n (os : list (mineral_layer_out (T:=R))) :
  (length os <= n)%nat -> length (dn_of n os) = n /\ Rsum (dn_of n os) = Rsum (map mo_dn os).
Proof.
  intros H. unfold dn_of. rewrite app_length, map_length, repeat_length, Rsum_app. split; [lia|].
  change (@zero R RNum) with 0. rewrite Rsum_repeat0. lra.
Qed.

(* ---------------- the sub-step loop ---------------- *)
Definition sub_ok (x : dayn_in (T:=R)) (n : nat) (s : sub_in (T:=R)) : Prop :=
  length (sb_expo s) = n /\ length (sb_wg0 s) = S n /\ length (sb_q1 s) = S n /\
  (forall z, (z < n)%nat -> 0 < get 0 (sb_wg0 s) z) /\
  (* Water sets QDRAIN = 0 on sub-steps without infiltration *)
  (sb_fluss0 s * dy_wdt x < 0 -> sb_qdrain s = 0).

(* the four clamp slacks of one sub-step *)
Definition sub_slack (x : dayn_in (T:=R)) (dn : list R) (n : nat) (first : bool) (s : sub_in (T:=R)) (st : nst (T:=R)) : R :=
  let y := mk_nmove x dn first s st in
  slack_uptake y n + slack_conc y n + slack_ckonz y n + slack_final y n.

Fixpoint subs_slack (x : dayn_in (T:=R)) (dn : list R) (n : nat) (first : bool) (subs : list (sub_in (T:=R)))
         (st : nst (T:=R)) : R :=
  match subs with
  | [] => 0
  | s :: r => sub_slack x dn n first s st + subs_slack x dn n false r (sub_step x dn first s st)
  end.

(* what the crop takes: the clamped uptake of the first sub-step *)
Definition pe_term (x : dayn_in (T:=R)) (dn : list R) (first : bool) (subs : list (sub_in (T:=R))) (st : nst (T:=R)) : R :=
  if first then match subs with [] => 0 | s :: _ => Rsum (nm_pe (mk_nmove x dn true s st)) end else 0.

Section Subs.
  Variable x : dayn_in (T:=R).
  Variable n : nat.
  Variable dn : list R.
  Hypothesis Hn : (2 <= n)%nat.
  Hypothesis Hdn : length dn = n.
  Hypothesis Had : length (dy_ad x) = n.
  Hypothesis Hw : length (dy_w x) = S n.
  Hypothesis Hout : dy_outn x = n.

  Lemma mk_wf first s st :
    sub_ok x n s -> length (st_c1 st) = n -> length (st_pe st) = n -> nmove_wf (mk_nmove x dn first s st) n.
  Proof.
    intros (A1 & A2 & A3 & A4 & A5) L1 L2. unfold nmove_wf. cbn [mk_nmove ni_c1 ni_pe ni_dn ni_ad ni_expo ni_wg0 ni_w ni_q1
      ni_outn ni_fluss0 ni_wdt ni_qdrain]. repeat split; assumption.
  Qed.

  Lemma nm_pe_later (y : nmove_in (T:=R)) :
    ni_subd1 y = false -> length (ni_pe y) = length (ni_c1 y) -> nm_pe y = ni_pe y.
  Proof. intros H L. unfold nm_pe, nm_ups. rewrite H. apply map_fst_id. exact L. Qed.

  Lemma subs_balance : forall subs first st,
    Forall (sub_ok x n) subs -> length (st_c1 st) = n -> length (st_pe st) = n ->
    let st' := sub_steps x dn first subs st in
    length (st_c1 st') = n /\ length (st_pe st') = n /\
    Rsum (st_c1 st') =
      Rsum (st_c1 st) - pe_term x dn first subs st + Rsum dn * dy_wdt x * INR (length subs)
      - (st_outsum st' - st_outsum st) - (st_drainloss st' - st_drainloss st)
      + subs_slack x dn n first subs st /\
    0 <= subs_slack x dn n first subs st /\
    (subs <> [] -> forall z, (z < n)%nat -> 0 <= get 0 (st_c1 st') z).
  Proof.
    induction subs as [|s r IH]; intros first st HF L1 L2; cbn zeta.
    - cbn [sub_steps subs_slack length INR]. unfold pe_term. repeat split; try assumption; try lra; try congruence.
      destruct first; lra.
    - apply Forall_inv in HF as Hs. apply Forall_inv_tail in HF.
      pose proof (mk_wf first s st Hs L1 L2) as Hwf.
      cbn [sub_steps]. set (st1 := sub_step x dn first s st).
      assert (E1 : st_c1 st1 = nm_c1 (mk_nmove x dn first s st)) by reflexivity.
      assert (E2 : st_pe st1 = nm_pe (mk_nmove x dn first s st)) by reflexivity.
      assert (L1' : length (st_c1 st1) = n) by (rewrite E1; apply (c1_length _ n Hwf)).
      assert (L2' : length (st_pe st1) = n) by (rewrite E2; apply (pe_length _ n Hwf)).
      destruct (IH false st1 HF L1' L2') as (B1 & B2 & B3 & B4 & B5). cbn zeta in *.
      split; [exact B1|]. split; [exact B2|].
      pose proof (nmove_balance_lemma _ n Hwf) as HB. pose proof (slack_nonneg _ n Hwf) as HS.
      cbn [mk_nmove ni_subd1 ni_c1 ni_dn ni_wdt ni_outsum ni_drainloss] in HB.
      assert (E3 : st_outsum st1 = nm_add_out (mk_nmove x dn first s st) (st_outsum st)) by reflexivity.
      assert (E4 : st_drainloss st1 = nm_drainloss (mk_nmove x dn first s st)) by reflexivity.
      cbn [subs_slack]. fold st1. unfold sub_slack at 1. cbn zeta.
      split; [| split].
      + rewrite B3. unfold pe_term at 1. cbn [pe_term]. rewrite E1, HB, E3, E4.
        change (length (s :: r)) with (S (length r)). rewrite S_INR.
        destruct first; cbn [pe_term]; lra.
      + unfold sub_slack. cbn zeta. lra.
      + intros _ z Hz. destruct r as [|s2 r2].
        * cbn [sub_steps]. rewrite E1. apply (c1_nonneg_lemma _ n Hwf z Hz).
        * apply B5; [discriminate | exact Hz].
  Qed.

  (* nothing is credited to the crop after the first sub-step, whatever their number *)
  Lemma subs_later_credit : forall subs st,
    length (st_c1 st) = n -> length (st_pe st) = n -> Forall (sub_ok x n) subs ->
    let st' := sub_steps x dn false subs st in
    st_pe st' = st_pe st /\ st_pesum st' = st_pesum st /\ st_aufnasum st' = st_aufnasum st.
  Proof.
    induction subs as [|s r IH]; intros st L1 L2 HF; cbn zeta; cbn [sub_steps]; [repeat split|].
    apply Forall_inv in HF as Hs. apply Forall_inv_tail in HF.
    pose proof (mk_wf false s st Hs L1 L2) as Hwf.
    set (st1 := sub_step x dn false s st).
    assert (E2 : st_pe st1 = st_pe st).
    { change (st_pe st1) with (nm_pe (mk_nmove x dn false s st)). rewrite nm_pe_later; [reflexivity | reflexivity |].
      cbn [mk_nmove ni_pe ni_c1]. congruence. }
    assert (L1' : length (st_c1 st1) = n) by (apply (c1_length _ n Hwf)).
    assert (L2' : length (st_pe st1) = n) by congruence.
    destruct (IH st1 L1' L2' HF) as (B1 & B2 & B3). cbn zeta in *.
    destruct (uptake_once_lemma (mk_nmove x dn false s st)) as [_ HU]. cbn zeta in HU.
    destruct (HU eq_refl) as [U1 U2].
    repeat split; [congruence | rewrite B2; exact U2 | rewrite B3; exact U1].
  Qed.
End Subs.

(* ---------------- denitrification at the end of the day (run.go:646-650) ---------------- *)
Lemma denitr_length (y : denit_in (T:=R)) : length (do_c1 (denitr y)) = length (di_c1 y).
Proof. unfold denitr. destruct (gtb _ zero); cbn [do_c1]; [apply map_length | reflexivity]. Qed.

Lemma denitr_third_zero (a b nq fth fte cum : R) :
  nth 2 (do_c1 (denitr {| di_c1 := [a; b; 0]; di_nquadrat := nq; di_ftheta := fth; di_ftemp := fte; di_cumdenit := cum |})) 0 = 0.
Proof.
  unfold denitr. cbn [di_c1]. destruct (gtb _ zero); cbn [do_c1 map nth]; [|reflexivity].
  unfold gtb. rsimp. replace (0 / _) with 0 by (unfold Rdiv; lra).
  destruct (RI.ltb_spec 0 0); [lra | reflexivity].
Qed.

Lemma denit_stage_books peat nq fth fte (c1 : list R) cum n :
  length c1 = n -> (2 <= n)%nat -> (peat = true -> (9 <= n)%nat) ->
  (forall z, (z < n)%nat -> 0 <= get 0 c1 z) ->
  let '(c1e, cum') := @denit_stage R RNum peat nq fth fte c1 cum in
  length c1e = n /\ Rsum c1 - (cum' - cum) <= Rsum c1e.
Proof.
  intros L Hn Hp Hpos. subst n. pose proof (nonneg_Forall c1 Hpos) as HF.
  unfold denit_stage. destruct peat.
  - specialize (Hp eq_refl).
    set (y := {| dm_c1 := firstn 9 c1; dm_nq := nq; dm_fth := fth; dm_fte := fte; dm_cum := cum |}).
    assert (L9 : length (dm_c1 y) = 9%nat) by (cbn [y dm_c1]; apply firstn_length_le; exact Hp).
    destruct (denitmo_books y L9 (Forall_firstn' _ 9 c1 HF)) as [_ HB]. cbn zeta in HB.
    assert (Ll : length (dmo_c1 (denitmo y)) = 9%nat) by reflexivity.
    split.
    + rewrite app_length, Ll, skipn_length. lia.
    + rewrite Rsum_app. rewrite (Rsum_split c1 9). cbn [y dm_c1 dm_cum] in HB. lra.
  - rsimp. set (y := {| di_c1 := take3 c1; di_nquadrat := get 0 nq 0; di_ftheta := get 0 fth 0; di_ftemp := get 0 fte 0;
                 di_cumdenit := cum |}).
    assert (HF3 : Forall (fun c => 0 <= c) (take3 c1)).
    { unfold take3. apply Forall_cons; [|apply Forall_cons; [|apply Forall_cons; [|apply Forall_nil]]]; rsimp;
        match goal with |- 0 <= get 0 c1 ?i => destruct (Nat.lt_ge_cases i (length c1)) as [H|H];
          [apply Hpos, H | unfold get; rewrite nth_overflow by exact H; lra] end. }
    destruct (denitr_books y eq_refl HF3) as (_ & HB & _). cbn zeta in HB. cbn [y di_c1 di_cumdenit] in HB. fold y in HB.
    pose proof (denitr_length y) as Ll. cbn [y di_c1 take3 length] in Ll. fold y in Ll.
    destruct c1 as [|a [|b [|c r]]]; cbn [length] in Hn; try lia.
    + (* two layers: the third entry read by Denitr lies outside the profile and is 0 *)
      pose proof (denitr_third_zero a b (get 0 nq 0) (get 0 fth 0) (get 0 fte 0) cum) as HZ.
      subst y. change (take3 [a; b]) with [a; b; 0] in *.
      set (d := do_c1 (denitr _)) in *.
      destruct d as [|a' [|b' [|c' [|]]]]; cbn [length] in Ll; try lia.
      cbn [nth] in HZ. subst c'. cbn [skipn app firstn length]. cbn [Rsum] in *. rsimp.
      split; [reflexivity | lra].
    + unfold take3, get in HB. cbn [nth] in HB. cbn [skipn].
      rewrite firstn_all2 by (rewrite app_length, Ll; cbn [length]; lia).
      split; [rewrite app_length, Ll; reflexivity|].
      rewrite Rsum_app. cbn [Rsum] in *. rsimp. lra.
Qed.

(* ---------------- the day ---------------- *)
Definition day_wf (x : dayn_in (T:=R)) (n : nat) : Prop :=
  (2 <= n)%nat /\ length (dy_c1 x) = n /\ length (dy_pe x) = n /\
  length (dy_nfos x) = n /\ length (dy_naos x) = n /\ length (dy_minfos x) = n /\ length (dy_minaos x) = n /\
  length (dy_ad x) = n /\ length (dy_w x) = S n /\
  dy_outn x = n /\                                   (* leaching depth = profile bottom *)
  (length (dy_menv x) <= n)%nat /\                   (* mineralisation depth inside the profile *)
  dy_subs x <> [] /\ Forall (sub_ok x n) (dy_subs x) /\
  dy_wdt x * INR (length (dy_subs x)) = 1 /\         (* k sub-steps of length 1/k *)
  (dy_till x = true -> (Z.to_nat (@truncZ R RNum (tillage_depth (dy_eint x))) <= n)%nat) /\   (* mixing depth inside the profile *)
  (dy_peat x = true -> (9 <= n)%nat).

Definition d_wg0 (x : dayn_in (T:=R)) : list R := match dy_subs x with s :: _ => sb_wg0 s | [] => [] end.
Definition d_g0 (x : dayn_in (T:=R)) : mineral_glob (T:=R) :=
  {| mg_wred := dy_wred x; mg_porges0 := dy_porges0 x; mg_dsumm := add_if (dy_fert x) (dy_ndir x) (dy_dsumm x);
     mg_ums := dy_ums x; mg_nh4sum := add_if (dy_fert x) (dy_nh4n x) (dy_nh4sum x); mg_nh4ums := dy_nh4ums x;
     mg_n2onitsum := dy_n2onitsum x; mg_n2onitdaily := dy_n2onitdaily x; mg_minsum := dy_minsum x |}.
Definition d_min (x : dayn_in (T:=R)) :=
  mineral (mk_mls (dy_menv x) (d_wg0 x) (d_naos2 x) (d_nfos2 x) (d_minaos2 x) (d_minfos2 x)) (d_g0 x).
Definition d_dn (x : dayn_in (T:=R)) : list R := dn_of (length (dy_c1 x)) (fst (d_min x)).
Definition d_st0 (x : dayn_in (T:=R)) : nst (T:=R) :=
  {| st_c1 := d_c1b x; st_pe := dy_pe x; st_pesum := dy_pesum x; st_aufnasum := dy_aufnasum x;
     st_outsum := dy_outsum x; st_nleag := dy_nleag x; st_drainloss := dy_drainloss x;
     st_unstable := false; st_trace := [] |}.
Definition d_st (x : dayn_in (T:=R)) : nst (T:=R) := sub_steps x (d_dn x) true (dy_subs x) (d_st0 x).
Definition d_den (x : dayn_in (T:=R)) :=
  denit_stage (dy_peat x) (dy_nq x) (dy_fth x) (dy_fte x) (st_c1 (d_st x)) (dy_cumdenit x).

Lemma day_nitro_fields (x : dayn_in (T:=R)) :
  let o := day_nitro x in
  dn_c1 o = fst (d_den x) /\ dn_cumdenit o = snd (d_den x) /\ dn_c1_nmove o = st_c1 (d_st x) /\
  dn_pe_taken o = st_pe (d_st x) /\ dn_outsum o = st_outsum (d_st x) /\ dn_drainloss o = st_drainloss (d_st x) /\
  dn_aufnasum o = st_aufnasum (d_st x) /\ dn_pesum o = st_pesum (d_st x) /\
  dn_minaos o = put_first mo_minaos (fst (d_min x)) (d_minaos2 x) /\
  dn_minfos o = put_first mo_minfos (fst (d_min x)) (d_minfos2 x) /\
  dn_naos o = put_first mo_naos (fst (d_min x)) (d_naos2 x) /\
  dn_nfos o = put_first mo_nfos (fst (d_min x)) (d_nfos2 x) /\
  dn_ums o = mg_ums (snd (d_min x)) /\ dn_n2onitsum o = mg_n2onitsum (snd (d_min x)) /\
  dn_dsumm o = mg_dsumm (snd (d_min x)) /\ dn_nh4sum o = mg_nh4sum (snd (d_min x)) /\
  dn_dn o = d_dn x /\ dn_pe o = map (fun _ => 0) (st_pe (d_st x)).
Proof.
  cbv zeta. unfold day_nitro, d_den, d_st, d_st0, d_dn, d_min, d_g0, d_wg0, d_minaos2, d_minfos2, d_naos2, d_nfos2, d_c1b,
    d_till, d_nfos1, d_naos1, d_c1a.
  destruct (till_stage _ _ _ _ _ _ _ _) as [[[[nfos2 naos2] minfos2] minaos2] c1b].
  destruct (mineral _ _) as [os g]. cbn [fst snd].
  destruct (denit_stage _ _ _ _ _ _) as [c1e cum]. cbn. repeat split; reflexivity.
Qed.

Lemma add_first_sum fire v (l : list R) :
  (0 < length l)%nat -> Rsum (@add_first R RNum fire v l) = Rsum l + (if fire then v else 0) /\
                        length (@add_first R RNum fire v l) = length l.
Proof.
  intros H. unfold add_first. destruct fire; [|split; [lra | reflexivity]].
  rewrite Rsum_upd by exact H. rewrite upd_length. rsimp. split; [lra | reflexivity].
Qed.

Section Day.
  Variable x : dayn_in (T:=R).
  Variable n : nat.
  Hypothesis Hwf : day_wf x n.

  Lemma day_wf_n : (2 <= n)%nat. Proof. exact (proj1 Hwf). Qed.
  Lemma day_wf_c1 : length (dy_c1 x) = n. Proof. exact (proj1 (proj2 Hwf)). Qed.

  Lemma d_c1a_length : length (d_c1a x) = n.
  Proof. unfold d_c1a. rewrite add_top_length. exact day_wf_c1. Qed.

  Lemma d_till_books :
    Rsum (d_nfos2 x) = Rsum (dy_nfos x) + (if dy_fert x then dy_nsas x else 0) /\
    Rsum (d_naos2 x) = Rsum (dy_naos x) + (if dy_fert x then dy_nlas x else 0) /\
    Rsum (d_minfos2 x) = Rsum (dy_minfos x) /\ Rsum (d_minaos2 x) = Rsum (dy_minaos x) /\
    0 <= slack_till x /\
    length (d_nfos2 x) = n /\ length (d_naos2 x) = n /\ length (d_minfos2 x) = n /\ length (d_minaos2 x) = n /\
    length (d_c1b x) = n.
  Proof.
    pose proof day_wf_n as Hn. pose proof day_wf_c1 as Lc1.
    pose proof Hwf as (_ & _ & _ & L3 & L4 & L5 & L6 & _ & _ & _ & _ & _ & _ & _ & HT & _).
    destruct (add_first_sum (dy_fert x) (dy_nsas x) (dy_nfos x) ltac:(lia)) as [S1 K1].
    destruct (add_first_sum (dy_fert x) (dy_nlas x) (dy_naos x) ltac:(lia)) as [S2 K2].
    pose proof (till_stage_books (dy_till x) (dy_eint x) (dy_tilart x) (d_nfos1 x) (d_naos1 x) (dy_minfos x) (dy_minaos x)
                  (d_c1a x) n ltac:(unfold d_nfos1; lia) ltac:(unfold d_naos1; lia) L5 L6 d_c1a_length HT) as H.
    unfold slack_till, d_nfos2, d_naos2, d_minfos2, d_minaos2, d_c1b, d_till.
    destruct (till_stage _ _ _ _ _ _ _ _) as [[[[nfos2 naos2] minfos2] minaos2] c1b].
    destruct H as (A1 & A2 & A3 & A4 & A5 & B1 & B2 & B3 & B4 & B5).
    unfold d_nfos1, d_naos1 in *. repeat split; try assumption; try lra.
  Qed.

  Lemma d_min_books :
    let os := fst (d_min x) in let g := snd (d_min x) in
    (length os <= n)%nat /\
    Rsum (put_first mo_naos os (d_naos2 x)) + Rsum (put_first mo_minaos os (d_minaos2 x))
      = Rsum (d_naos2 x) + Rsum (d_minaos2 x) /\
    Rsum (put_first mo_nfos os (d_nfos2 x)) + Rsum (put_first mo_minfos os (d_minfos2 x))
      = Rsum (d_nfos2 x) + Rsum (d_minfos2 x) /\
    mg_dsumm g = dy_dsumm x + (if dy_fert x then dy_ndir x else 0) /\
    mg_nh4sum g = dy_nh4sum x + (if dy_fert x then dy_nh4n x else 0) /\
    Rsum (map mo_dn os) =
      (Rsum (put_first mo_minaos os (d_minaos2 x)) - Rsum (d_minaos2 x))
      + (Rsum (put_first mo_minfos os (d_minfos2 x)) - Rsum (d_minfos2 x))
      + (mg_ums g - dy_ums x) - (mg_n2onitsum g - dy_n2onitsum x).
  Proof.
    pose proof day_wf_n as Hn. pose proof day_wf_c1 as Lc1.
    destruct d_till_books as (_ & _ & _ & _ & _ & K1 & K2 & K3 & K4 & _).
    assert (Hm : (length (dy_menv x) <= n)%nat) by (pose proof Hwf as (_ & _ & _ & _ & _ & _ & _ & _ & _ & _ & H & _); exact H).
    destruct (mk_mls_facts (dy_menv x) (d_wg0 x) (d_naos2 x) (d_nfos2 x) (d_minaos2 x) (d_minfos2 x)
                ltac:(lia) ltac:(lia) ltac:(lia) ltac:(lia)) as (M0 & M1 & M2 & M3 & M4).
    cbv zeta in M0, M1, M2, M3, M4.
    pose proof (mineral_layers_books (mk_mls (dy_menv x) (d_wg0 x) (d_naos2 x) (d_nfos2 x) (d_minaos2 x) (d_minfos2 x)) 1%nat (d_g0 x)) as H.
    cbv zeta. unfold d_min, mineral. destruct (mineral_layers _ _ _) as [os g]. cbn [fst snd].
    destruct H as (A0 & A1 & A2 & A3 & A4 & A5).
    rewrite M0 in A0. rewrite M1, M3 in A1. rewrite M2, M4 in A2. rewrite M3, M4 in A5. rewrite <- A0 in A1, A2, A5.
    pose proof (put_first_sum mo_naos os (d_naos2 x)). pose proof (put_first_sum mo_minaos os (d_minaos2 x)).
    pose proof (put_first_sum mo_nfos os (d_nfos2 x)). pose proof (put_first_sum mo_minfos os (d_minfos2 x)).
    cbn [d_g0 mg_dsumm mg_nh4sum mg_ums mg_n2onitsum] in A3, A4, A5. unfold add_if in *. rsimp.
    repeat split; try lia; try lra.
    - rewrite A3. destruct (dy_fert x); lra.
    - rewrite A4. destruct (dy_fert x); lra.
  Qed.

  Lemma d_dn_facts : length (d_dn x) = n /\ Rsum (d_dn x) = Rsum (map mo_dn (fst (d_min x))).
  Proof. destruct d_min_books as (H & _). cbv zeta in H. unfold d_dn. rewrite day_wf_c1. apply dn_of_facts. exact H. Qed.

  Lemma d_subs_facts :
    length (st_c1 (d_st x)) = n /\
    Rsum (st_c1 (d_st x)) =
      Rsum (d_c1b x) - Rsum (st_pe (d_st x)) + Rsum (d_dn x)
      - (st_outsum (d_st x) - dy_outsum x) - (st_drainloss (d_st x) - dy_drainloss x)
      + subs_slack x (d_dn x) n true (dy_subs x) (d_st0 x) /\
    0 <= subs_slack x (d_dn x) n true (dy_subs x) (d_st0 x) /\
    (forall z, (z < n)%nat -> 0 <= get 0 (st_c1 (d_st x)) z) /\
    st_aufnasum (d_st x) - dy_aufnasum x = Rsum (st_pe (d_st x)) /\
    st_pesum (d_st x) - dy_pesum x = Rsum (st_pe (d_st x)) + (if dy_growing x then dy_schnorr x else 0).
  Proof.
    pose proof day_wf_n as Hn. pose proof day_wf_c1 as Lc1.
    destruct d_dn_facts as [Ldn _]. destruct d_till_books as (_ & _ & _ & _ & _ & _ & _ & _ & _ & Lb).
    pose proof Hwf as (_ & _ & Lpe & _ & _ & _ & _ & Lad & Lw & Lout & _ & Hne & HF & Hk & _).
    pose proof (subs_balance x n (d_dn x) Hn Ldn Lad Lw Lout (dy_subs x) true (d_st0 x) HF Lb Lpe) as H.
    cbv zeta in H. fold (d_st x) in H. destruct H as (B1 & B2 & B3 & B4 & B5).
    unfold d_st in *. destruct (dy_subs x) as [|s1 r] eqn:Es; [congruence|].
    apply Forall_inv in HF as Hs. apply Forall_inv_tail in HF.
    pose proof (mk_wf x n (d_dn x) Hn Ldn Lad Lw Lout true s1 (d_st0 x) Hs Lb Lpe) as Hwf1.
    cbn [sub_steps] in *. set (st1 := sub_step x (d_dn x) true s1 (d_st0 x)) in *.
    assert (L1' : length (st_c1 st1) = n) by (apply (c1_length _ n Hwf1)).
    assert (L2' : length (st_pe st1) = n) by (apply (pe_length _ n Hwf1)).
    destruct (subs_later_credit x n (d_dn x) Hn Ldn Lad Lw Lout r st1 L1' L2' HF) as (C1 & C2 & C3). cbv zeta in C1, C2, C3.
    destruct (uptake_once_lemma (mk_nmove x (d_dn x) true s1 (d_st0 x))) as [HU _]. cbv zeta in HU.
    destruct (HU eq_refl) as [U1 U2].
    change (no_aufnasum (nmove (mk_nmove x (d_dn x) true s1 (d_st0 x)))) with (st_aufnasum st1) in U1.
    change (no_pesum (nmove (mk_nmove x (d_dn x) true s1 (d_st0 x)))) with (st_pesum st1) in U2.
    change (no_pe (nmove (mk_nmove x (d_dn x) true s1 (d_st0 x)))) with (st_pe st1) in U1, U2.
    cbn [mk_nmove ni_aufnasum ni_pesum ni_growing ni_schnorr d_st0 st_aufnasum st_pesum] in U1, U2.
    unfold pe_term in B3. change (nm_pe (mk_nmove x (d_dn x) true s1 (d_st0 x))) with (st_pe st1) in B3.
    cbn [d_st0 st_c1 st_outsum st_drainloss] in B3.
    rewrite C1. rewrite C2, C3.
    repeat split; try assumption.
    - rewrite B3. rewrite Rmult_assoc, Hk. lra.
    - apply B5. discriminate.
  Qed.

  Definition day_denit_loss : R := Rsum (dn_c1_nmove (day_nitro x)) - Rsum (dn_c1 (day_nitro x)).
  Definition day_slack : R :=
    slack_add x + slack_till x + subs_slack x (d_dn x) n true (dy_subs x) (d_st0 x).
  Definition day_source : R :=
    let o := day_nitro x in
    (Rsum (dn_minaos o) - Rsum (dy_minaos x)) + (Rsum (dn_minfos o) - Rsum (dy_minfos x))
    + (dn_ums o - dy_ums x) - (dn_n2onitsum o - dy_n2onitsum x).

  (* C02 at the level of the day *)
  Lemma day_balance_lemma :
    let o := day_nitro x in
    Rsum (dn_c1 o) - Rsum (dy_c1 x) =
      day_dep x + day_irr x + day_source
      - Rsum (dn_pe_taken o) - (dn_outsum o - dy_outsum x) - (dn_drainloss o - dy_drainloss x)
      - day_denit_loss + day_slack /\
    0 <= day_slack /\
    day_denit_loss <= dn_cumdenit o - dy_cumdenit x /\
    Rsum (dn_dn o) = day_source.
  Proof.
    pose proof day_wf_n as Hn. pose proof day_wf_c1 as Lc1.
    cbv zeta. unfold day_denit_loss, day_slack, day_source. cbv zeta.
    destruct (day_nitro_fields x) as (F1 & F2 & F3 & F4 & F5 & F6 & F7 & F8 & F9 & F10 & F11 & F12 & F13 & F14 & F15 & F16 & F17 & _).
    cbv zeta in *. rewrite F1, F2, F3, F4, F5, F6, F9, F10, F13, F14, F17.
    destruct d_till_books as (_ & _ & T3 & T4 & T5 & _).
    destruct d_min_books as (_ & _ & _ & _ & _ & M5). cbv zeta in M5.
    destruct d_dn_facts as [_ D2].
    destruct d_subs_facts as (S0 & S1 & S2 & S3 & _).
    assert (Hp : dy_peat x = true -> (9 <= n)%nat) by (pose proof Hwf as (_ & _ & _ & _ & _ & _ & _ & _ & _ & _ & _ & _ & _ & _ & _ & H); exact H).
    pose proof (denit_stage_books (dy_peat x) (dy_nq x) (dy_fth x) (dy_fte x) (st_c1 (d_st x)) (dy_cumdenit x) n S0 Hn Hp S3) as HD.
    fold (d_den x) in HD. destruct (d_den x) as [c1e cum]. cbn [fst snd]. destruct HD as [_ HD].
    pose proof (slack_add_nonneg x ltac:(lia)) as HA.
    unfold slack_till in *. unfold slack_add in *.
    repeat split; lra.
  Qed.

  (* C07 at the level of the day: uptake and fixation are credited once, whatever the number of sub-steps *)
  Lemma day_credit_lemma :
    let o := day_nitro x in
    dn_aufnasum o - dy_aufnasum x = Rsum (dn_pe_taken o) /\
    dn_pesum o - dy_pesum x = Rsum (dn_pe_taken o) + (if dy_growing x then dy_schnorr x else 0) /\
    Rsum (dn_pe o) = 0.
  Proof.
    pose proof day_wf_n as Hn. pose proof day_wf_c1 as Lc1.
    cbv zeta. destruct (day_nitro_fields x) as (_ & _ & _ & F4 & _ & _ & F7 & F8 & _ & _ & _ & _ & _ & _ & _ & _ & _ & F18).
    cbv zeta in *. rewrite F4, F7, F8, F18. destruct d_subs_facts as (_ & _ & _ & _ & S4 & S5).
    rewrite Rsum_map_zero. repeat split; assumption.
  Qed.

  (* C07 at the level of the day: pools plus mineralised-amount counters change only by the fertiliser applied;
     tillage mixing and mineralisation keep the sums; applied fertiliser is booked in DSUMM / NH4Sum *)
  Lemma day_pools_lemma :
    let o := day_nitro x in
    Rsum (dn_naos o) + Rsum (dn_minaos o) = Rsum (dy_naos x) + Rsum (dy_minaos x) + (if dy_fert x then dy_nlas x else 0) /\
    Rsum (dn_nfos o) + Rsum (dn_minfos o) = Rsum (dy_nfos x) + Rsum (dy_minfos x) + (if dy_fert x then dy_nsas x else 0) /\
    dn_dsumm o = dy_dsumm x + (if dy_fert x then dy_ndir x else 0) /\
    dn_nh4sum o = dy_nh4sum x + (if dy_fert x then dy_nh4n x else 0).
  Proof.
    pose proof day_wf_n as Hn. pose proof day_wf_c1 as Lc1.
    cbv zeta. destruct (day_nitro_fields x) as (_ & _ & _ & _ & _ & _ & _ & _ & F9 & F10 & F11 & F12 & _ & _ & F15 & F16 & _).
    cbv zeta in *. rewrite F9, F10, F11, F12, F15, F16.
    destruct d_till_books as (T1 & T2 & T3 & T4 & _).
    destruct d_min_books as (_ & M1 & M2 & M3 & M4 & _). cbv zeta in *.
    repeat split; try assumption; lra.
  Qed.
End Day.

(* ---------------- the hypotheses are satisfiable: a two-layer day with two sub-steps, irrigation N, deposition,
   a fertiliser event and one mineralisation layer ---------------- *)
Definition ex_sub : sub_in (T:=R) :=
  {| sb_fluss0 := 1; sb_qdrain := 0; sb_q1 := [0; 1 / 2; 1 / 4]; sb_wg0 := [3 / 10; 3 / 10; 3 / 10]; sb_expo := [20; 20] |}.
Definition ex_day : dayn_in (T:=R) :=
  {| dy_add := true; dy_irr := true; dy_brkz := 10; dy_breg := 20; dy_depos := 20; dy_dt := 1;
     dy_c1 := [30; 20]; dy_nfos := [10; 5]; dy_naos := [1000; 800]; dy_minfos := [1; 1]; dy_minaos := [2; 2];
     dy_pe := [1; 1 / 2];
     dy_pesum := 50; dy_aufnasum := 40; dy_outsum := 3; dy_nleag := 2; dy_drainloss := 0;
     dy_dsumm := 60; dy_ums := 50; dy_nh4sum := 20; dy_nh4ums := 15; dy_n2onitsum := 1; dy_n2onitdaily := 0; dy_minsum := 30;
     dy_cumdenit := 4;
     dy_fert := true; dy_nsas := 5; dy_nlas := 10; dy_ndir := 40; dy_nh4n := 10;
     dy_till := false; dy_eint := 0; dy_tilart := 1;
     dy_menv := [{| me_tdprev := 10; me_td := 12; me_e0 := 1 / 1000000000000; me_e1 := 1 / 1000000000000000;
                    me_wnor := 35 / 100; me_wmin := 1 / 10; me_porges := 45 / 100; me_w := 35 / 100 |}];
     dy_wred := 2 / 10; dy_porges0 := 45 / 100;
     dy_wdt := 1 / 2; dy_after_sow := true; dy_growing := true; dy_dv := 4; dy_draidep := 0; dy_outn := 2;
     dy_stab := - (3 / 2); dy_schnorr := 1 / 10; dy_ad := [2 / 1000; 2 / 1000]; dy_w := [35 / 100; 35 / 100; 35 / 100];
     dy_subs := [ex_sub; ex_sub];
     dy_peat := false; dy_nq := [2500]; dy_fth := [1 / 2]; dy_fte := [1 / 2] |}.

Lemma ex_sub_ok : sub_ok ex_day 2 ex_sub.
Proof.
  unfold sub_ok. cbn [ex_sub sb_expo sb_wg0 sb_q1 sb_fluss0 sb_qdrain length]. repeat split.
  intros z Hz. destruct z as [|[|z]]; unfold get; cbn [nth]; try lra. lia.
Qed.

Lemma day_wf_nonvacuous :
  exists x : dayn_in (T:=R), day_wf x 2 /\ dy_fert x = true /\ dy_add x = true /\ length (dy_subs x) = 2%nat.
Proof.
  exists ex_day. split; [|repeat split].
  unfold day_wf. cbn [ex_day dy_c1 dy_pe dy_nfos dy_naos dy_minfos dy_minaos dy_ad dy_w dy_outn dy_menv dy_subs dy_wdt
                      dy_till dy_peat dy_eint length].
  repeat split; try lia; try discriminate.
  - apply Forall_cons; [apply ex_sub_ok | apply Forall_cons; [apply ex_sub_ok | apply Forall_nil]].
  - cbn. lra.
Qed.
