(* SoilProofs.v — loader agreement for soil profiles: the fixed-width reader on the fixed-width
   rendering of an abstract profile = the CSV reader on its CSV rendering. *)
From Coq Require Import ZArith List Bool Ascii String Lia.
From Hermes Require Import Util Num DateModel CropParamModel CropParamProofs SoilModel.
Import ListNotations.
Local Open Scope Z_scope.

(* ------------------------------------------------------------------ *)
(* trimming padded texts *)
Lemma ltrim_spaces n t : ltrim (spaces n ++ t) = ltrim t.
Proof. induction n as [|n IH]; cbn; [reflexivity|exact IH]. Qed.

Lemma rev_spaces n : rev (spaces n) = spaces n.
Proof.
  induction n as [|n IH]; [reflexivity|]. cbn [spaces repeat rev]. fold (spaces n). rewrite IH.
  clear IH. induction n as [|n IH]; [reflexivity|]. cbn [spaces repeat app]. fold (spaces n). now rewrite IH.
Qed.

Lemma ltrim_nil_spaces t n : ltrim t = [] -> ltrim (t ++ spaces n) = [].
Proof.
  induction t as [|c t IH]; cbn [ltrim app]; intros H.
  - rewrite <- (app_nil_r (spaces n)). rewrite ltrim_spaces. reflexivity.
  - destruct (is_space c); [auto|discriminate].
Qed.

Lemma ltrim_app_spaces t n : ltrim t <> [] -> ltrim (t ++ spaces n) = ltrim t ++ spaces n.
Proof.
  induction t as [|c t IH]; cbn [ltrim app]; intros H; [congruence|].
  destruct (is_space c); [auto|reflexivity].
Qed.

Lemma trim_spaces_l n t : trim (spaces n ++ t) = trim t.
Proof. unfold trim. now rewrite ltrim_spaces. Qed.

Lemma trim_spaces_r n t : trim (t ++ spaces n) = trim t.
Proof.
  unfold trim. destruct (ltrim t) as [|c r] eqn:E.
  - now rewrite ltrim_nil_spaces.
  - rewrite ltrim_app_spaces by congruence. rewrite E, rev_app_distr, rev_spaces, ltrim_spaces. reflexivity.
Qed.

Lemma trim_rjust n t : trim (rjust n t) = trim t.
Proof. apply trim_spaces_l. Qed.
Lemma trim_ljust n t : trim (ljust n t) = trim t.
Proof. apply trim_spaces_r. Qed.

Lemma spaces_length n : List.length (spaces n) = n.
Proof. apply repeat_length. Qed.
Lemma rjust_length n t : (List.length t <= n)%nat -> List.length (rjust n t) = n.
Proof. intros H. unfold rjust. rewrite app_length, spaces_length. lia. Qed.
Lemma ljust_length n t : (List.length t <= n)%nat -> List.length (ljust n t) = n.
Proof. intros H. unfold ljust. rewrite app_length, spaces_length. lia. Qed.

(* ------------------------------------------------------------------ *)
(* slicing a concatenation of cells; splitting an intercalation *)
Definition total (cells : list lstr) : nat := fold_right (fun c s => (List.length c + s)%nat) O cells.

Lemma concat_length cells : List.length (List.concat cells) = total cells.
Proof. induction cells as [|c r IH]; cbn; [reflexivity|]. now rewrite app_length, IH. Qed.

Lemma subs_cell : forall (cells : list lstr) k a b,
  a = total (firstn k cells) -> b = (a + List.length (nth k cells []))%nat -> (k < List.length cells)%nat ->
  subs a b (List.concat cells) = Some (nth k cells []).
Proof.
  induction cells as [|c r IH]; intros k a b Ha Hb Hk; [cbn in Hk; lia|].
  destruct k as [|k].
  - cbn in Ha. subst a. cbn [nth] in *. cbn [List.concat]. unfold subs, slice. cbn in Hb. subst b.
    rewrite app_length. replace (Nat.leb (List.length c) (List.length c + List.length (List.concat r))) with true
      by (symmetry; apply Nat.leb_le; lia).
    cbn [skipn]. rewrite Nat.sub_0_r. rewrite firstn_app, Nat.sub_diag, firstn_all. cbn. now rewrite app_nil_r.
  - cbn [firstn total fold_right] in Ha. cbn [nth] in *. cbn [List.concat].
    assert (Hk' : (k < List.length r)%nat) by (cbn in Hk; lia).
    specialize (IH k (a - List.length c)%nat (b - List.length c)%nat).
    assert (Ht : total (firstn k r) = (a - List.length c)%nat) by (unfold total in *; lia).
    rewrite <- IH; [|unfold total in *; lia|lia|exact Hk'].
    unfold subs, slice. rewrite app_length.
    destruct (Nat.leb b (List.length c + List.length (List.concat r))) eqn:E1.
    + apply Nat.leb_le in E1.
      replace (Nat.leb (b - List.length c) (List.length (List.concat r))) with true by (symmetry; apply Nat.leb_le; lia).
      f_equal. rewrite skipn_app. rewrite (skipn_all2 c) by lia. cbn [app].
      f_equal; lia.
    + apply Nat.leb_gt in E1.
      replace (Nat.leb (b - List.length c) (List.length (List.concat r))) with false by (symmetry; apply Nat.leb_gt; lia).
      reflexivity.
Qed.

Definition no_comma (t : lstr) : Prop := ~ In ","%char t.

Lemma split_at_no_sep sep t : forall cur rest,
  ~ In sep t -> split_at sep cur (t ++ rest) = split_at sep (rev t ++ cur) rest.
Proof.
  induction t as [|c t IH]; intros cur rest H; [reflexivity|].
  cbn [app split_at]. destruct (ascii_dec c sep) as [->|Hne]; [exfalso; apply H; now left|].
  rewrite IH by (intros Hin; apply H; now right). cbn [rev]. now rewrite <- app_assoc.
Qed.

Lemma split_intercalate sep (fs : list lstr) : fs <> [] -> Forall (fun t => ~ In sep t) fs ->
  split_on sep (intercalate [sep] fs) = fs.
Proof.
  unfold split_on. intros Hne HF.
  assert (G : forall cur, split_at sep cur (intercalate [sep] fs) =
                          match fs with [] => [rev cur] | x :: r => (rev cur ++ x) :: r end).
  { induction fs as [|x r IH]; intros cur; [congruence|].
    inversion HF as [|? ? Hx Hr]; subst.
    destruct r as [|y r'].
    - cbn [intercalate]. rewrite <- (app_nil_r x) at 1. rewrite split_at_no_sep by exact Hx.
      cbn [split_at]. now rewrite rev_app_distr, rev_involutive.
    - change (intercalate [sep] (x :: y :: r')) with (x ++ [sep] ++ intercalate [sep] (y :: r')).
      rewrite split_at_no_sep by exact Hx. cbn [app split_at].
      destruct (ascii_dec sep sep); [|congruence].
      rewrite rev_app_distr, rev_involutive. f_equal.
      rewrite (IH ltac:(congruence) Hr []). reflexivity. }
  rewrite G. destruct fs; [congruence|reflexivity].
Qed.

(* ------------------------------------------------------------------ *)
(* well-formed abstract profiles: every text fits its columns and has no comma *)
Definition fits (n : nat) (t : lstr) : Prop := (List.length t <= n)%nat /\ no_comma t.

Record wf_hor (h : ahor) : Prop := {
  wf_corg : fits 4 (a_corg h); wf_tex : (1 <= List.length (a_tex h) <= 3)%nat /\ no_comma (a_tex h);
  wf_depth : fits 2 (a_depth h); wf_ld : List.length (a_ld h) = 1%nat /\ no_comma (a_ld h);
  wf_stone : fits 2 (a_stone h); wf_cn : fits 3 (a_cn h); wf_fc : fits 2 (a_fc h); wf_wp : fits 2 (a_wp h);
  wf_ps : fits 2 (a_ps h); wf_sand : fits 2 (a_sand h); wf_silt : fits 2 (a_silt h); wf_clay : fits 2 (a_clay h) }.

Record wf_profile (p : aprofile) : Prop := {
  wf_sid : List.length (ap_sid p) = 3%nat /\ no_comma (ap_sid p);
  wf_root : fits 2 (ap_root p); wf_dd : fits 2 (ap_draindepth p); wf_dp : fits 3 (ap_drainpct p);
  wf_gw : fits 2 (ap_gw p);
  wf_hors : Forall wf_hor (ap_hor p);
  wf_count : (1 <= List.length (ap_hor p) <= 99)%nat }.

Definition sum (l : list nat) : nat := fold_right Nat.add O l.

Lemma total_sum cells : total cells = sum (map (@List.length ascii) cells).
Proof. induction cells as [|c r IH]; [reflexivity|]. cbn [map sum fold_right total] in *. unfold total, sum in IH. now rewrite IH. Qed.

Lemma subs_cell' (cells : list lstr) (lens : list nat) k a b :
  map (@List.length ascii) cells = lens -> a = sum (firstn k lens) -> b = (a + nth k lens O)%nat ->
  (k < List.length lens)%nat -> subs a b (List.concat cells) = Some (nth k cells []).
Proof.
  intros Hl Ha Hb Hk. subst lens. apply subs_cell.
  - rewrite Ha, total_sum. now rewrite firstn_map.
  - rewrite Hb. f_equal. rewrite <- (map_nth (@List.length ascii)). reflexivity.
  - now rewrite map_length in Hk.
Qed.

Lemma two_digits_length n : List.length (two_digits n) = 2%nat.
Proof. reflexivity. Qed.

Lemma txt_cells_lens first n p h : wf_profile p -> wf_hor h ->
  map (@List.length ascii) (txt_cells first n p h) = txt_lens.
Proof.
  intros [[Ls _] [Lr _] [Ld _] [Lp _] [Lg _] _ _] [[L1 _] [[L2 L2'] _] [L3 _] [L4 _] [L5 _] [L6 _] [L7 _] [L8 _] [L9 _] [L10 _] [L11 _] [L12 _]].
  unfold txt_cells, txt_lens. cbn [map].
  rewrite Ls, L4, !spaces_length.
  rewrite !rjust_length, !ljust_length by assumption.
  destruct first; rewrite ?rjust_length, ?spaces_length by assumption; reflexivity.
Qed.

Section SoilAgree.
  Context {T : Type} {NT : Num T}.

  Lemma val_as_float_trim (a b : lstr) : trim a = trim b -> val_as_float (T:=T) a = val_as_float b.
  Proof. unfold val_as_float. now intros ->. Qed.
  Lemma val_as_int_trim (a b : lstr) : trim a = trim b -> val_as_int a = val_as_int b.
  Proof. unfold val_as_int. now intros ->. Qed.
  Lemma try_float_trim (a b : lstr) : trim a = trim b -> try_float (T:=T) a = try_float b.
  Proof. unfold try_float. intros H. now rewrite (val_as_float_trim a b H). Qed.

  Lemma verify_ljust t : (1 <= List.length t <= 3)%nat -> verify_texture (ljust 3 t) = verify_texture t.
  Proof.
    intros H. unfold verify_texture, ljust. rewrite app_length, spaces_length.
    destruct t as [|a [|b [|c [|d r]]]]; cbn in H; try lia; cbn; reflexivity.
  Qed.

  (* the texts a reader hands to [read_horizon] may differ by padding only *)
  Definition hf_equiv (a b : hfields) : Prop :=
    trim (hf_corg a) = trim (hf_corg b) /\ verify_texture (hf_tex a) = verify_texture (hf_tex b) /\
    trim (hf_depth a) = trim (hf_depth b) /\ trim (hf_ld a) = trim (hf_ld b) /\ hf_bulk a = hf_bulk b /\
    trim (hf_stone a) = trim (hf_stone b) /\ trim (hf_cn a) = trim (hf_cn b) /\ trim (hf_fc a) = trim (hf_fc b) /\
    trim (hf_wp a) = trim (hf_wp b) /\ trim (hf_ps a) = trim (hf_ps b) /\ trim (hf_sand a) = trim (hf_sand b) /\
    trim (hf_silt a) = trim (hf_silt b) /\ trim (hf_clay a) = trim (hf_clay b).

  Lemma read_horizon_equiv a b : hf_equiv a b -> read_horizon (T:=T) a = read_horizon b.
  Proof.
    intros (E1 & E2 & E3 & E4 & E5 & E6 & E7 & E8 & E9 & E10 & E11 & E12 & E13).
    unfold read_horizon. rewrite E2, E5.
    rewrite (val_as_int_trim _ _ E3), (val_as_int_trim _ _ E4), (val_as_float_trim _ _ E1),
      (val_as_float_trim _ _ E7), (val_as_float_trim _ _ E6), (try_float_trim _ _ E8), (try_float_trim _ _ E9),
      (try_float_trim _ _ E10), (try_float_trim _ _ E11), (try_float_trim _ _ E12), (try_float_trim _ _ E13).
    reflexivity.
  Qed.

  Definition pf_equiv (a b : pfields) : Prop :=
    trim (pf_nhor a) = trim (pf_nhor b) /\ trim (pf_root a) = trim (pf_root b) /\
    match pf_gw a, pf_gw b with Some x, Some y => trim x = trim y | None, None => True | _, _ => False end /\
    trim (pf_draindepth a) = trim (pf_draindepth b) /\ trim (pf_drainpct a) = trim (pf_drainpct b).

  Lemma read_horizons_step n k (h : nat -> res hfields) :
    read_horizons (T:=T) (S n) k h =
    bind (bind (h k) read_horizon) (fun hz => bind (read_horizons n (S k) h) (fun r => Ok (hz :: r))).
  Proof. cbn [read_horizons]. destruct (h k); reflexivity. Qed.

  Lemma read_horizons_ext n : forall k (h1 h2 : nat -> res hfields),
    (forall j, (k <= j < k + n)%nat -> bind (h1 j) (read_horizon (T:=T)) = bind (h2 j) read_horizon) ->
    read_horizons n k h1 = read_horizons n k h2.
  Proof.
    induction n as [|n IH]; intros k h1 h2 H; [reflexivity|].
    rewrite !read_horizons_step.
    rewrite (H k) by lia.
    rewrite (IH (S k) h1 h2) by (intros j Hj; apply H; lia).
    reflexivity.
  Qed.

  Lemma read_profile_equiv gw (p1 p2 : pfields) (h1 h2 : nat -> res hfields) :
    pf_equiv p1 p2 ->
    (forall azho j, val_as_int (pf_nhor p2) = Some azho -> (j < ztn azho)%nat ->
                    bind (h1 j) (read_horizon (T:=T)) = bind (h2 j) read_horizon) ->
    read_profile gw (Some p1) h1 = read_profile (T:=T) gw (Some p2) h2.
  Proof.
    intros (E1 & E2 & E3 & E4 & E5) H. unfold read_profile. cbn [crash_if_none bind].
    rewrite (val_as_int_trim _ _ E1), (val_as_int_trim _ _ E2), (val_as_int_trim _ _ E4), (val_as_float_trim _ _ E5).
    destruct (val_as_int (pf_nhor p2)) as [azho|] eqn:EA; cbn [crash_if_none bind]; [|reflexivity].
    destruct (val_as_int (pf_root p2)); cbn [crash_if_none bind]; [|reflexivity].
    assert (G : (if gw then crash_if_none (let? g := pf_gw p1 in val_as_int g) else Ok 0) =
                (if gw then crash_if_none (let? g := pf_gw p2 in val_as_int g) else Ok 0)).
    { destruct gw; [|reflexivity]. destruct (pf_gw p1), (pf_gw p2); try contradiction; [|reflexivity].
      now rewrite (val_as_int_trim _ _ E3). }
    rewrite G.
    rewrite (read_horizons_ext (ztn azho) 0 h1 h2) by (intros j Hj; apply (H azho j eq_refl); lia).
    reflexivity.
  Qed.

  Lemma read_profile_azho gw pf hor (sd : soildata T) :
    read_profile gw (Some pf) hor = Ok sd -> val_as_int (pf_nhor pf) = Some (sd_azho sd).
  Proof.
    unfold read_profile. cbn [crash_if_none bind].
    destruct (val_as_int (pf_nhor pf)) as [azho|]; cbn [crash_if_none bind]; [|discriminate].
    destruct (val_as_int (pf_root pf)); cbn [crash_if_none bind]; [|discriminate].
    destruct (if gw then crash_if_none (let? g := pf_gw pf in val_as_int g) else Ok 0); cbn [bind]; try discriminate.
    destruct (val_as_int (pf_draindepth pf)); cbn [crash_if_none bind]; [|discriminate].
    destruct (val_as_float (pf_drainpct pf)); cbn [crash_if_none bind]; [|discriminate].
    destruct (10 <? azho); [discriminate|].
    destruct (read_horizons (ztn azho) 0 hor); cbn [bind]; try discriminate.
    destruct (azho <? 0); [discriminate|].
    destruct ((20 <? _) || _); [discriminate|]. intros H. inversion H. reflexivity.
  Qed.

  (* ---------------- the rendered lines ---------------- *)
  Definition txt_hf (h : ahor) : hfields :=
    {| hf_corg := rjust 4 (a_corg h); hf_tex := ljust 3 (a_tex h); hf_depth := rjust 2 (a_depth h); hf_ld := a_ld h;
       hf_bulk := None; hf_stone := rjust 2 (a_stone h); hf_cn := ljust 3 (a_cn h); hf_fc := rjust 2 (a_fc h);
       hf_wp := rjust 2 (a_wp h); hf_ps := rjust 2 (a_ps h); hf_sand := rjust 2 (a_sand h); hf_silt := rjust 2 (a_silt h);
       hf_clay := rjust 2 (a_clay h) |}.
  Definition csv_hf (h : ahor) : hfields :=
    {| hf_corg := a_corg h; hf_tex := a_tex h; hf_depth := a_depth h; hf_ld := a_ld h; hf_bulk := None;
       hf_stone := a_stone h; hf_cn := a_cn h; hf_fc := a_fc h; hf_wp := a_wp h; hf_ps := a_ps h; hf_sand := a_sand h;
       hf_silt := a_silt h; hf_clay := a_clay h |}.

  Lemma hf_txt_csv h : wf_hor h -> hf_equiv (txt_hf h) (csv_hf h).
  Proof.
    intros W. unfold hf_equiv, txt_hf, csv_hf.
    cbn [hf_corg hf_tex hf_depth hf_ld hf_bulk hf_stone hf_cn hf_fc hf_wp hf_ps hf_sand hf_silt hf_clay].
    repeat split; try apply trim_rjust; try apply trim_ljust.
    apply verify_ljust. exact (proj1 (wf_tex h W)).
  Qed.

  Ltac cell k := eapply (subs_cell' _ txt_lens k); [eassumption | reflexivity | reflexivity | cbn; lia].

  Lemma txt_hfields_render first n p h : wf_profile p -> wf_hor h ->
    txt_hfields (render_txt_line first n p h) = Some (txt_hf h).
  Proof.
    intros Wp Wh. pose proof (txt_cells_lens first n p h Wp Wh) as L.
    unfold txt_hfields, render_txt_line.
    rewrite (ltac:(cell 4%nat) : subs 9 12 _ = Some _). rewrite (ltac:(cell 6%nat) : subs 13 15 _ = Some _).
    rewrite (ltac:(cell 8%nat) : subs 16 17 _ = Some _). rewrite (ltac:(cell 2%nat) : subs 4 8 _ = Some _).
    rewrite (ltac:(cell 12%nat) : subs 21 24 _ = Some _). rewrite (ltac:(cell 10%nat) : subs 18 20 _ = Some _).
    rewrite (ltac:(cell 20%nat) : subs 40 42 _ = Some _). rewrite (ltac:(cell 22%nat) : subs 43 45 _ = Some _).
    rewrite (ltac:(cell 24%nat) : subs 46 48 _ = Some _). rewrite (ltac:(cell 26%nat) : subs 49 51 _ = Some _).
    rewrite (ltac:(cell 28%nat) : subs 52 54 _ = Some _). rewrite (ltac:(cell 30%nat) : subs 55 57 _ = Some _).
    reflexivity.
  Qed.

  Definition txt_pf (gw : bool) (n : nat) (p : aprofile) : pfields :=
    {| pf_nhor := two_digits n; pf_root := rjust 2 (ap_root p); pf_gw := if gw then Some (rjust 2 (ap_gw p)) else None;
       pf_draindepth := rjust 2 (ap_draindepth p); pf_drainpct := ljust 3 (ap_drainpct p) |}.
  Definition csv_pf (gw : bool) (n : nat) (p : aprofile) : pfields :=
    {| pf_nhor := two_digits n; pf_root := ap_root p; pf_gw := if gw then Some (ap_gw p) else None;
       pf_draindepth := ap_draindepth p; pf_drainpct := ap_drainpct p |}.

  Lemma pf_txt_csv gw n p : pf_equiv (txt_pf gw n p) (csv_pf gw n p).
  Proof.
    unfold pf_equiv, txt_pf, csv_pf. cbn [pf_nhor pf_root pf_gw pf_draindepth pf_drainpct].
    repeat split; try apply trim_rjust; try apply trim_ljust.
    destruct gw; [apply trim_rjust|exact I].
  Qed.

  Lemma txt_pfields_render gw n p h : wf_profile p -> wf_hor h ->
    txt_pfields gw (render_txt_line true n p h) = Some (txt_pf gw n p).
  Proof.
    intros Wp Wh. pose proof (txt_cells_lens true n p h Wp Wh) as L.
    unfold txt_pfields, render_txt_line.
    rewrite (ltac:(cell 18%nat) : subs 35 37 _ = Some _). rewrite (ltac:(cell 16%nat) : subs 32 34 _ = Some _).
    rewrite (ltac:(cell 37%nat) : subs 70 72 _ = Some _).
    rewrite (ltac:(cell 34%nat) : subs 62 64 _ = Some _). rewrite (ltac:(cell 36%nat) : subs 67 70 _ = Some _).
    destruct gw; reflexivity.
  Qed.

  Lemma txt_line_head first n p h : wf_profile p -> wf_hor h ->
    Nat.ltb (List.length (render_txt_line first n p h)) 3 = false /\ firstn 3 (render_txt_line first n p h) = ap_sid p.
  Proof.
    intros Wp Wh. pose proof (txt_cells_lens first n p h Wp Wh) as L.
    pose proof (ltac:(cell 0%nat) : subs 0 3 (List.concat (txt_cells first n p h)) = Some _) as S.
    unfold subs, slice in S. unfold render_txt_line.
    destruct (Nat.leb 3 (List.length (List.concat (txt_cells first n p h)))) eqn:E; [|discriminate].
    apply Nat.leb_le in E. split; [apply Nat.ltb_ge; exact E|].
    cbn [skipn Nat.sub] in S. now inversion S.
  Qed.

  (* ---------------- the CSV lines ---------------- *)
  Definition csv_list (first : bool) (n : nat) (p : aprofile) (h : ahor) : list lstr :=
    [ap_sid p; a_corg h; a_tex h; a_depth h; a_ld h; []; a_stone h; a_cn h; lstr_of "00";
     if first then ap_root p else []; if first then two_digits n else []; a_fc h; a_wp h; a_ps h; a_sand h; a_silt h;
     a_clay h; ap_draindepth p; ap_drainpct p; if first then ap_gw p else spaces 3].

  Lemma two_digits_no_comma n : (n <= 99)%nat -> no_comma (two_digits n).
  Proof.
    intros H. unfold no_comma, two_digits, digit_char.
    assert (A : (n / 10 < 10)%nat) by (apply Nat.div_lt_upper_bound; lia).
    assert (B : (n mod 10 < 10)%nat) by (apply Nat.mod_upper_bound; lia).
    set (a := (n / 10)%nat) in *. set (b := (n mod 10)%nat) in *.
    intros [E|[E|[]]]; apply (f_equal N_of_ascii) in E; rewrite N_ascii_embedding in E by lia;
      change (N_of_ascii ","%char) with 44%N in E; lia.
  Qed.

  Lemma csv_split first n p h : wf_profile p -> wf_hor h -> (n <= 99)%nat ->
    split_on ","%char (render_csv_line first n p h) = csv_list first n p h.
  Proof.
    intros [[_ Cs] [_ Cr] [_ Cd] [_ Cp] [_ Cg] _ _] [[_ C1] [_ C2] [_ C3] [_ C4] [_ C5] [_ C6] [_ C7] [_ C8] [_ C9] [_ C10] [_ C11] [_ C12]] Hn.
    unfold render_csv_line. fold (csv_list first n p h).
    apply split_intercalate; [discriminate|].
    assert (Z0 : no_comma []) by (intros []).
    assert (Z00 : no_comma (lstr_of "00")) by (cbn; intros [E|[E|[]]]; discriminate).
    assert (Zs : no_comma (spaces 3)) by (cbn; intros [E|[E|[E|[]]]]; discriminate).
    pose proof (two_digits_no_comma n Hn) as Z2.
    unfold csv_list. repeat constructor; try assumption; destruct first; assumption.
  Qed.

  Definition csv_hdr : list lstr := Eval vm_compute in explode [","%char; ";"%char] csv_header.
  Lemma csv_hdr_eq : explode [","%char; ";"%char] csv_header = csv_hdr.
  Proof. vm_compute. reflexivity. Qed.

  Ltac cols :=
    repeat match goal with
           | |- context [col csv_hdr ?s] => let v := eval vm_compute in (col csv_hdr s) in change (col csv_hdr s) with v
           | |- context [has_col csv_hdr ?s] => let v := eval vm_compute in (has_col csv_hdr s) in change (has_col csv_hdr s) with v
           end.

  Lemma csv_hfields_render first n p h : csv_hfields csv_hdr (csv_list first n p h) = Some (csv_hf h).
  Proof. unfold csv_hfields, tok. cols. reflexivity. Qed.

  Lemma csv_pfields_render gw n p h : csv_pfields gw csv_hdr (csv_list true n p h) = Some (csv_pf gw n p).
  Proof. unfold csv_pfields, tok. cols. destruct gw; reflexivity. Qed.

  Lemma csv_sid first n p h : tok csv_hdr (csv_list first n p h) "SID" = Some (ap_sid p).
  Proof. unfold tok. cols. reflexivity. Qed.

  Lemma leqb_refl a : leqb a a = true.
  Proof. unfold leqb. destruct (list_eq_dec ascii_dec a a); congruence. Qed.

  Lemma val_two_digits n : (n <= 99)%nat -> val_as_int (two_digits n) = Some (Z.of_nat n).
  Proof.
    intros H.
    assert (A : forallb (fun k => match val_as_int (two_digits (Z.to_nat k)) with Some v => v =? k | None => false end)
                        (zrange 0 100) = true) by (vm_compute; reflexivity).
    pose proof (zrange_forall _ 0 100 A (Z.of_nat n) ltac:(lia)) as B. cbv beta in B.
    rewrite Nat2Z.id in B. destruct (val_as_int (two_digits n)); [|discriminate].
    apply Z.eqb_eq in B. now subst.
  Qed.

  Lemma skipn_all_len {A} (l : list A) n : (List.length l <= n)%nat -> skipn n l = [].
  Proof. intros H. apply skipn_all2. exact H. Qed.

  Lemma scan_txt_profile fuel gw sid lines l0 pf :
    nth_error lines 0 = Some l0 -> Nat.ltb (List.length l0) 3 = false -> firstn 3 l0 = sid ->
    txt_pfields gw l0 = Some pf ->
    scan_txt (T:=T) (S fuel) gw sid lines None =
    bind (read_profile gw (Some pf) (fun k => crash_if_none (let? lk := nth_error lines k in txt_hfields lk)))
         (fun sd => scan_txt fuel gw sid (skipn (Nat.max 1 (ztn (sd_azho sd))) lines) (Some sd)).
  Proof.
    destruct lines as [|l rest]; [discriminate|]. intros H0 Hl Hs Hp. cbn in H0. inversion H0; subst l0.
    cbn [scan_txt]. rewrite Hl, Hs, leqb_refl, Hp. reflexivity.
  Qed.

  Lemma scan_csv_profile fuel gw hdr sid lines l0 toks pf :
    nth_error lines 0 = Some l0 -> split_on ","%char l0 = toks -> tok hdr toks "SID" = Some sid ->
    csv_pfields gw hdr toks = Some pf ->
    scan_csv (T:=T) (S fuel) gw hdr sid lines None =
    bind (read_profile gw (Some pf) (csv_hor hdr sid lines))
         (fun sd => scan_csv fuel gw hdr sid (skipn (Nat.max 1 (ztn (sd_azho sd))) lines) (Some sd)).
  Proof.
    destruct lines as [|l rest]; [discriminate|]. intros H0 Ht Hs Hp. cbn in H0. inversion H0; subst l0.
    cbn [scan_csv]. rewrite Ht, Hs, leqb_refl, Hp. reflexivity.
  Qed.

  Theorem soil_agree_lemma : forall gw p, wf_profile p ->
    load_soil_txt (T:=T) gw (ap_sid p) (render_txt p) = load_soil_csv gw (ap_sid p) (render_csv p).
  Proof.
    intros gw p W. pose proof W as [Wsid _ _ _ _ Whs Wn].
    remember (List.length (ap_hor p)) as n eqn:En.
    destruct (ap_hor p) as [|h0 hr] eqn:Ehs; [cbn in En; lia|].
    assert (Wh0 : wf_hor h0) by (inversion Whs; assumption).
    unfold load_soil_txt, load_soil_csv, render_txt, render_csv. rewrite csv_hdr_eq.
    set (tl := render_lines render_txt_line p). set (cl := render_lines render_csv_line p).
    assert (Ltl : List.length tl = n) by (unfold tl, render_lines; now rewrite mapi_length, Ehs).
    assert (Lcl : List.length cl = n) by (unfold cl, render_lines; now rewrite mapi_length, Ehs).
    assert (Ntl : forall j hj, nth_error (h0 :: hr) j = Some hj ->
                  nth_error tl j = Some (render_txt_line (Nat.eqb j 0) n p hj)).
    { intros j hj Hj. unfold tl, render_lines. rewrite Ehs, nth_error_mapi, Hj, <- En. reflexivity. }
    assert (Ncl : forall j hj, nth_error (h0 :: hr) j = Some hj ->
                  nth_error cl j = Some (render_csv_line (Nat.eqb j 0) n p hj)).
    { intros j hj Hj. unfold cl, render_lines. rewrite Ehs, nth_error_mapi, Hj, <- En. reflexivity. }
    rewrite Ltl, Lcl.
    destruct (txt_line_head true n p h0 W Wh0) as [Hlen Hhead].
    rewrite (scan_txt_profile n gw (ap_sid p) tl _ _ (Ntl O h0 eq_refl) Hlen Hhead (txt_pfields_render gw n p h0 W Wh0)).
    rewrite (scan_csv_profile n gw csv_hdr (ap_sid p) cl _ _ _ (Ncl O h0 eq_refl)
               (csv_split true n p h0 W Wh0 ltac:(lia)) (csv_sid _ _ _ _) (csv_pfields_render gw n p h0)).
    (* the two profiles are read alike *)
    match goal with |- context [read_profile gw (Some (txt_pf gw n p)) ?h] => set (ht := h) end.
    assert (R : read_profile gw (Some (txt_pf gw n p)) ht =
                read_profile (T:=T) gw (Some (csv_pf gw n p)) (csv_hor csv_hdr (ap_sid p) cl)).
    { subst ht. apply read_profile_equiv; [apply pf_txt_csv|].
      intros azho j Hz Hj. cbn [csv_pf pf_nhor] in Hz. rewrite val_two_digits in Hz by lia. inversion Hz; subst azho.
      unfold ztn in Hj. rewrite Nat2Z.id in Hj.
      destruct (nth_error (h0 :: hr) j) as [hj|] eqn:Ej; [|apply nth_error_None in Ej; lia].
      assert (Whj : wf_hor hj) by (rewrite Forall_forall in Whs; apply Whs; eapply nth_error_In; eauto).
      cbv beta. change (@nth_error (list ascii) tl j) with (@nth_error lstr tl j). rewrite (Ntl j hj Ej). cbv beta iota. rewrite (txt_hfields_render _ _ _ _ W Whj).
      unfold csv_hor. rewrite (Ncl j hj Ej), (csv_split _ n p hj W Whj ltac:(lia)), csv_sid, leqb_refl.
      rewrite andb_false_r, csv_hfields_render. cbn [crash_if_none bind].
      apply read_horizon_equiv, hf_txt_csv, Whj. }
    rewrite R.
    destruct (read_profile gw (Some (csv_pf gw n p)) (csv_hor csv_hdr (ap_sid p) cl)) as [sd| |] eqn:ER; cbn [bind]; try reflexivity.
    pose proof (read_profile_azho _ _ _ _ ER) as Hz. cbn [csv_pf pf_nhor] in Hz. rewrite val_two_digits in Hz by lia.
    inversion Hz as [Hz']. unfold ztn. rewrite Nat2Z.id.
    replace (Nat.max 1 n) with n by lia.
    match goal with |- context [@skipn ?A n tl] =>
      replace (@skipn A n tl) with (@nil A) by (symmetry; apply skipn_all2; exact (Nat.eq_le_incl _ _ Ltl)) end.
    match goal with |- context [@skipn ?A n cl] =>
      replace (@skipn A n cl) with (@nil A) by (symmetry; apply skipn_all2; exact (Nat.eq_le_incl _ _ Lcl)) end.
    destruct n; [lia|]. reflexivity.
  Qed.
End SoilAgree.
