(* LongdayProofs.v — termination of the day-length searches (for every oracle) and of the
   day / sub-step loops (LongdayModel). *)
From Coq Require Import ZArith Bool List Lia.
From Hermes Require Import LongdayModel.
Local Open Scope Z_scope.

Definition first_from (longer : Z -> bool) (lo d : Z) : Prop :=
  lo < d /\ longer d = true /\ forall e, lo < e < d -> longer e = false.

Lemma first_from_unique longer lo d d' : first_from longer lo d -> first_from longer lo d' -> d = d'.
Proof.
  intros (A & B & C) (A' & B' & C').
  destruct (Z.lt_trichotomy d d') as [Hlt|[Heq|Hgt]]; [|exact Heq|].
  - rewrite (C' d) in B by lia. discriminate.
  - rewrite (C d') in B' by lia. discriminate.
Qed.

Lemma search_spec longer : forall fuel tag n,
  0 <= tag -> (Z.to_nat (366 - tag) <= fuel)%nat -> (1 <= fuel)%nat ->
  exists tag' p',
    search longer fuel tag 0 n = Some (tag', p', n + (tag' - tag)) /\
    tag < tag' <= Z.max 366 (tag + 1) /\
    (forall d, tag < d < tag' -> longer d = false) /\
    ((p' = tag' /\ longer tag' = true) \/
     (p' = 0 /\ longer tag' = false /\ tag' = Z.max 366 (tag + 1))).
Proof.
  induction fuel as [|f IH]; intros tag n Htag Hfuel H1; [lia|].
  cbn [search]. destruct (longer (tag + 1)) eqn:El.
  - replace (tag + 1 =? 0) with false by (symmetry; apply Z.eqb_neq; lia). cbn [andb].
    exists (tag + 1), (tag + 1). repeat split; try lia.
    + do 2 f_equal. lia.
    + left. split; [reflexivity|exact El].
  - cbn [Z.eqb andb]. destruct (Z.ltb_spec (tag + 1) 366) as [Hlt|Hge].
    + destruct (IH (tag + 1) (n + 1)) as (tag' & p' & Hs & Hr & Hno & Hp); try lia.
      exists tag', p'. repeat split; try lia.
      * rewrite Hs. do 2 f_equal. lia.
      * intros d Hd. destruct (Z.eq_dec d (tag + 1)) as [->|Hne]; [exact El|]. apply Hno. lia.
      * destruct Hp as [Hp|(Hp0 & Hpl & Hpt)]; [left; exact Hp|]. right. repeat split; auto. lia.
    + exists (tag + 1), 0. repeat split; try lia.
      * do 2 f_equal. lia.
      * right. repeat split; auto. lia.
Qed.

Definition found (l14 l16 : Z -> bool) (d1 d2 : Z) : Prop :=
  first_from l14 0 d1 /\ d1 <= 366 /\ first_from l16 d1 d2 /\ d2 <= Z.max 366 (d1 + 1).

Lemma langtag_spec (l14 l16 : Z -> bool) (yoff : Z) :
  exists tag p1 p2 n,
    langtag l14 l16 yoff 366 = Some (tag, p1, p2, n) /\ 2 <= n <= 367 /\
    ((exists d1 d2, found l14 l16 d1 d2 /\
                    tag = d2 /\ p1 = yoff + (d1 + 20) /\ p2 = yoff + d2 /\ n = d2) \/
     ((tag, p1, p2) = (0, 0, 0) /\ ~ exists d1 d2, found l14 l16 d1 d2)).
Proof.
  unfold langtag.
  destruct (search_spec l14 366 0 0) as (t1 & p1 & Hs1 & Hr1 & Hno1 & Hp1); try lia.
  rewrite Hs1.
  destruct (search_spec l16 366 t1 (0 + (t1 - 0))) as (t2 & p2 & Hs2 & Hr2 & Hno2 & Hp2); try lia.
  rewrite Hs2.
  assert (Hn : 2 <= 0 + (t1 - 0) + (t2 - t1) <= 367) by lia.
  destruct Hp1 as [(-> & Hl1)|(-> & Hl1 & Ht1)].
  - (* a first day longer than 14 h exists: t1 *)
    assert (F1 : first_from l14 0 t1) by (repeat split; [lia|exact Hl1|exact Hno1]).
    replace (t1 =? 0) with false by (symmetry; apply Z.eqb_neq; lia). cbn [orb].
    destruct Hp2 as [(-> & Hl2)|(-> & Hl2 & Ht2)].
    + replace (t2 =? 0) with false by (symmetry; apply Z.eqb_neq; lia).
      eexists _, _, _, _. split; [reflexivity|]. split; [exact Hn|]. left.
      exists t1, t2. repeat split; try lia; auto.
    + cbn [Z.eqb]. eexists _, _, _, _. split; [reflexivity|]. split; [exact Hn|]. right.
      split; [reflexivity|]. intros (d1 & d2 & G1 & Hd1 & (A & B & C) & Hd2).
      pose proof (first_from_unique _ _ _ _ F1 G1) as <-.
      destruct (Z.eq_dec d2 t2) as [->|Hne]; [congruence|].
      rewrite (Hno2 d2) in B by lia. discriminate.
  - (* no day 1..366 is longer than 14 h *)
    cbn [Z.eqb orb]. eexists _, _, _, _. split; [reflexivity|]. split; [exact Hn|]. right.
    split; [reflexivity|]. intros (d1 & d2 & (A & B & C) & Hd1 & _).
    destruct (Z.eq_dec d1 t1) as [->|Hne]; [congruence|].
    rewrite (Hno1 d1) in B by lia. discriminate.
Qed.

(* C11 longday_terminates: for EVERY day-length oracle both searches together stop after at
   most 367 iterations (fuel 366 per loop is never exhausted), and the result is (0,0,0)
   exactly when there is no first 14 h day d1 <= 366 followed by a 16 h day. *)
Theorem longday_terminates_lemma : forall (l14 l16 : Z -> bool) (yoff : Z),
  exists tag p1 p2 n,
    langtag l14 l16 yoff 366 = Some (tag, p1, p2, n) /\ 2 <= n <= 367 /\
    ((tag, p1, p2) = (0, 0, 0) <-> ~ exists d1 d2, found l14 l16 d1 d2) /\
    (forall d1 d2, found l14 l16 d1 d2 ->
       tag = d2 /\ p1 = yoff + (d1 + 20) /\ p2 = yoff + d2 /\ n = d2).
Proof.
  intros l14 l16 yoff.
  destruct (langtag_spec l14 l16 yoff) as (tag & p1 & p2 & n & Hl & Hn & Hc).
  exists tag, p1, p2, n. split; [exact Hl|]. split; [exact Hn|].
  destruct Hc as [(d1 & d2 & Hf & -> & -> & -> & ->)|(Hz & Hnf)].
  - split.
    + split.
      * intros E. injection E as E1 _ _. destruct Hf as ((A & _) & _ & (B & _) & _). lia.
      * intros Hnf. exfalso. apply Hnf. eauto.
    + intros e1 e2 Hf'. destruct Hf as (F1 & H1 & F2 & H2). destruct Hf' as (G1 & K1 & G2 & K2).
      pose proof (first_from_unique _ _ _ _ F1 G1) as <-.
      pose proof (first_from_unique _ _ _ _ F2 G2) as <-. auto.
  - split; [tauto|]. intros d1 d2 Hf. exfalso. apply Hnf. eauto.
Qed.

(* ---------------- day loop and sub-step loop ---------------- *)
(* any time step >= 1, ENDE possibly reassigned by the body but never beyond E *)
Lemma day_loop_bound body E dt : 1 <= dt ->
  (forall z e, snd (body z e) <= E) ->
  forall fuel zeit ende n,
  ende <= E -> (Z.to_nat (E - zeit + 1) <= fuel)%nat ->
  exists k e, day_loop body fuel zeit ende dt n = Some (n + k, e) /\
              0 <= k <= Z.max 0 (E - zeit + 1).
Proof.
  intros Hdt HE. induction fuel as [|f IH]; intros zeit ende n Hende Hf.
  - cbn. destruct (Z.leb_spec zeit ende); [lia|]. exists 0, false. split; [f_equal; f_equal; lia|lia].
  - cbn [day_loop]. destruct (Z.leb_spec zeit ende) as [Hle|Hgt].
    + pose proof (HE zeit ende) as HE'. destruct (body zeit ende) as [err ende']. cbn [snd] in HE'.
      destruct err.
      * exists 1, true. split; [reflexivity|lia].
      * destruct (Z.eqb_spec zeit ende') as [->|Hne].
        -- exists 1, false. split; [reflexivity|lia].
        -- destruct (IH (zeit + dt) ende' (n + 1)) as (k & e & Hk & Hb); [lia|lia|].
           exists (1 + k), e. split; [rewrite Hk; do 2 f_equal; lia|lia].
    + exists 0, false. split; [do 2 f_equal; lia|lia].
Qed.

(* time step 1 and a body that leaves ENDE alone (no fertiliser prediction) *)
Lemma day_loop_exact body ende : (forall z e, snd (body z e) = e) -> forall fuel zeit n,
  (Z.to_nat (ende - zeit + 1) <= fuel)%nat ->
  exists k e, day_loop body fuel zeit ende 1 n = Some (n + k, e) /\
    (e = false -> k = Z.max 0 (ende - zeit + 1) /\ forall z, zeit <= z <= ende -> fst (body z ende) = false) /\
    (e = true -> 1 <= k <= ende - zeit + 1 /\ fst (body (zeit + k - 1) ende) = true /\
                 forall z, zeit <= z < zeit + k - 1 -> fst (body z ende) = false).
Proof.
  intros Hsame. induction fuel as [|f IH]; intros zeit n Hf.
  - cbn. destruct (Z.leb_spec zeit ende); [lia|]. exists 0, false.
    split; [do 2 f_equal; lia|]. split; [|discriminate]. intros _. split; [lia|]. intros z Hz. lia.
  - cbn [day_loop]. destruct (Z.leb_spec zeit ende) as [Hle|Hgt].
    + pose proof (Hsame zeit ende) as Hs. destruct (body zeit ende) as [err ende'] eqn:Eb.
      cbn [snd] in Hs. subst ende'. destruct err.
      * exists 1, true. split; [reflexivity|]. split; [discriminate|]. intros _.
        split; [lia|]. split; [replace (zeit + 1 - 1) with zeit by lia; now rewrite Eb|]. intros z Hz. lia.
      * destruct (Z.eqb_spec zeit ende) as [->|Hne].
        -- exists 1, false. split; [reflexivity|]. split; [|discriminate]. intros _. split; [lia|].
           intros z Hz. replace z with ende by lia. now rewrite Eb.
        -- destruct (IH (zeit + 1) (n + 1)) as (k & e & Hk & Hfalse & Htrue); [lia|].
           exists (1 + k), e. split; [rewrite Hk; do 2 f_equal; lia|]. split.
           ++ intros He. destruct (Hfalse He) as [-> Hall]. split; [lia|].
              intros z Hz. destruct (Z.eq_dec z zeit) as [->|Hz']; [now rewrite Eb|]. apply Hall. lia.
           ++ intros He. destruct (Htrue He) as (Hk1 & Hb & Hall). split; [lia|]. split.
              ** replace (zeit + (1 + k) - 1) with (zeit + 1 + k - 1) by lia. exact Hb.
              ** intros z Hz. destruct (Z.eq_dec z zeit) as [->|Hz']; [now rewrite Eb|]. apply Hall. lia.
    + exists 0, false. split; [do 2 f_equal; lia|]. split; [|discriminate]. intros _. split; [lia|].
      intros z Hz. lia.
Qed.

(* C11 day_loop_terminates (day loop).
   (a) time step 1, ENDE not reassigned by the body (every run without fertiliser
       prediction): a run that meets no error performs exactly ENDE-BEGINN+1 iterations; one
       that meets an error stops at the first failing day.
   (b) any time step >= 1, ENDE reassigned by the body to values <= E (prediction): at most
       E-BEGINN+1 iterations. *)
Theorem day_loop_terminates_lemma : forall (body : Z -> Z -> bool * Z) (beginn ende : Z),
  beginn <= ende ->
  ((forall z e, snd (body z e) = e) ->
   exists k e, day_loop body (Z.to_nat (ende - beginn + 1)) beginn ende 1 0 = Some (k, e) /\
     (e = false -> k = ende - beginn + 1 /\ forall z, beginn <= z <= ende -> fst (body z ende) = false) /\
     (e = true -> 1 <= k <= ende - beginn + 1 /\ fst (body (beginn + k - 1) ende) = true /\
                  forall z, beginn <= z < beginn + k - 1 -> fst (body z ende) = false)) /\
  (forall dt E, 1 <= dt -> ende <= E -> (forall z e, snd (body z e) <= E) ->
     exists k e, day_loop body (Z.to_nat (E - beginn + 1)) beginn ende dt 0 = Some (k, e) /\
                 0 <= k <= E - beginn + 1).
Proof.
  intros body beginn ende Hle. split.
  - intros Hsame.
    destruct (day_loop_exact body ende Hsame (Z.to_nat (ende - beginn + 1)) beginn 0) as (k & e & Hk & Hf & Ht); [lia|].
    exists k, e. cbn in Hk. split; [exact Hk|]. split.
    + intros He. destruct (Hf He) as [-> Hall]. split; [lia|exact Hall].
    + exact Ht.
  - intros dt E Hdt HE Hb.
    destruct (day_loop_bound body E dt Hdt Hb (Z.to_nat (E - beginn + 1)) beginn ende 0) as (k & e & Hk & Hbd); [lia|lia|].
    exists k, e. cbn in Hk. split; [exact Hk|lia].
Qed.

Lemma substep_loop_exact body steps : forall fuel subd n,
  (Z.to_nat (steps - subd + 1) <= fuel)%nat ->
  exists k e, substep_loop body fuel subd steps n = Some (n + k, e) /\
    0 <= k <= Z.max 0 (steps - subd + 1) /\
    (e = false -> k = Z.max 0 (steps - subd + 1)).
Proof.
  induction fuel as [|f IH]; intros subd n Hf.
  - cbn. destruct (Z.leb_spec subd steps); [lia|]. exists 0, false.
    split; [do 2 f_equal; lia|]. split; [lia|]. intros _. lia.
  - cbn [substep_loop]. destruct (Z.leb_spec subd steps) as [Hle|Hgt].
    + destruct (body subd).
      * exists 1, true. split; [reflexivity|]. split; [lia|discriminate].
      * destruct (IH (subd + 1) (n + 1)) as (k & e & Hk & Hb & He); [lia|].
        exists (1 + k), e. split; [rewrite Hk; do 2 f_equal; lia|]. split; [lia|].
        intros E. rewrite (He E). lia.
    + exists 0, false. split; [do 2 f_equal; lia|]. split; [lia|]. intros _. lia.
Qed.

(* C11 day_loop_terminates (sub-step loop): int(STEPS) iterations when no sub-step fails,
   never more (0 when int(STEPS) < 1). *)
Theorem substep_loop_terminates_lemma : forall (body : Z -> bool) (steps : Z),
  exists k e, substep_loop body (Z.to_nat steps) 1 steps 0 = Some (k, e) /\
              0 <= k <= Z.max 0 steps /\ (e = false -> k = Z.max 0 steps).
Proof.
  intros body steps.
  destruct (substep_loop_exact body steps (Z.to_nat steps) 1 0) as (k & e & Hk & Hb & He); [lia|].
  exists k, e. cbn in Hk. split; [exact Hk|]. split; [lia|]. intros E. rewrite (He E). lia.
Qed.
