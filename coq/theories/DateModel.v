(* DateModel.v — executable model of hermes/helper.go: DateConverter, extractDate,
   ValAsInt (strconv.ParseInt after TrimSpace), KalenderDate, KalenderConverter.
   No proofs here.  Go ints are unbounded Z (all values stay below 2^31); Go's / and %
   truncate toward zero: Z.quot / Z.rem.  A Go panic (index out of range) or log.Fatal
   is [None]. *)
From Coq Require Import ZArith List Bool Ascii String Lia.
Import ListNotations.
Open Scope Z_scope.

Definition lstr := list ascii.
Definition lstr_of (s : string) : lstr := list_ascii_of_string s.
Definition str_of (l : lstr) : string := string_of_list_ascii l.

Inductive datefmt := DEshort | DElong | ENshort | ENlong.

(* ---------- strconv.ParseInt(strings.TrimSpace(s), 10, 64) ---------- *)
Definition is_space (c : ascii) : bool :=
  let n := N_of_ascii c in
  (N.eqb n 32 || N.eqb n 9 || N.eqb n 10 || N.eqb n 11 || N.eqb n 12 || N.eqb n 13)%N.

Fixpoint ltrim (l : lstr) : lstr :=
  match l with c :: r => if is_space c then ltrim r else l | [] => [] end.
Definition trim (l : lstr) : lstr := rev (ltrim (rev (ltrim l))).

Definition digit_val (c : ascii) : option Z :=
  let n := Z.of_N (N_of_ascii c) in
  if (48 <=? n) && (n <=? 57) then Some (n - 48) else None.

Fixpoint parse_digits (acc : Z) (l : lstr) : option Z :=
  match l with
  | [] => Some acc
  | c :: r => match digit_val c with Some d => parse_digits (acc * 10 + d) r | None => None end
  end.

Definition parse_uint (l : lstr) : option Z :=
  match l with [] => None | _ => parse_digits 0 l end.

(* sign handling of ParseInt; the int64 range check is irrelevant for <= 4 digits *)
Definition parse_int (l : lstr) : option Z :=
  match l with
  | "+"%char :: r => parse_uint r
  | "-"%char :: r => option_map Z.opp (parse_uint r)
  | _ => parse_uint l
  end.

Definition val_as_int (l : lstr) : option Z := parse_int (trim l).

(* Go slice s[a:b] for 0 <= a <= b <= len s *)
Definition slice (a b : nat) (l : lstr) : lstr := firstn (b - a) (skipn a l).

(* ---------- extractDate ---------- *)
Definition extract_date (l : lstr) (short : bool) : option (Z * Z * Z) :=
  let three (a b c : lstr) :=
    match val_as_int a, val_as_int b, val_as_int c with
    | Some x, Some y, Some z => Some (x, y, z)
    | _, _, _ => None
    end in
  let n := List.length l in
  if short then
    if Nat.eqb n 6 then three (slice 0 2 l) (slice 2 4 l) (slice 4 6 l)
    else if Nat.eqb n 8 then three (slice 0 2 l) (slice 3 5 l) (slice 6 8 l)
    else None
  else
    if Nat.eqb n 8 then three (slice 0 2 l) (slice 2 4 l) (slice 4 8 l)
    else if Nat.eqb n 10 then three (slice 0 2 l) (slice 3 5 l) (slice 6 10 l)
    else None.

(* ---------- DateConverter ---------- *)
Definition MT0 : list Z := [0; 31; 59; 90; 120; 151; 181; 212; 243; 273; 304; 334].

(* MT[MON-1] after the leap-year correction loop; None = index out of range *)
Definition mt_lookup (YR MON : Z) : option Z :=
  if (1 <=? MON) && (MON <=? 12) then
    Some (nth (Z.to_nat (MON - 1)) MT0 0
          + (if (Z.rem YR 4 =? 0) && (3 <=? MON) then 1 else 0))
  else None.

(* returns (ztDat, masDat) from (TG, MON, YR) with YR counted from 1900 *)
Definition masdat_num (TG MON YR : Z) : option (Z * Z) :=
  match mt_lookup YR MON with
  | Some off => Some (off + TG, (YR - 1) * 365 + Z.quot (YR - 1) 4 + off + TG)
  | None => None
  end.

Definition date_converter (cent : Z) (f : datefmt) (s : lstr) : option (Z * Z) :=
  let s := trim s in
  match f with
  | DEshort =>
      match extract_date s true with
      | Some (TG, MON, YR) => masdat_num TG MON (if YR <? cent then YR + 100 else YR)
      | None => None end
  | DElong =>
      match extract_date s false with
      | Some (TG, MON, YR) => if YR <? 1901 then None else masdat_num TG MON (YR - 1900)
      | None => None end
  | ENshort =>
      match extract_date s true with
      | Some (MON, TG, YR) => masdat_num TG MON (if YR <? cent then YR + 100 else YR)
      | None => None end
  | ENlong =>
      match extract_date s false with
      | Some (MON, TG, YR) => if YR <? 1901 then None else masdat_num TG MON (YR - 1900)
      | None => None end
  end.

(* ---------- KalenderDate ---------- *)
Definition MTK : list Z := [31; 59; 90; 120; 151; 181; 212; 243; 273; 304; 334; 365].

(* MT[idx] as the loop sees it: index >= 1 already carries KORR when visited *)
Definition mtk (KORR : Z) (idx : nat) : Z :=
  nth idx MTK 0 + (if Nat.ltb 0 idx then KORR else 0).

(* month search; fuel = remaining table entries; None = ran off the table (Go panics) *)
Fixpoint month_search (fuel : nat) (KORR TG : Z) (MOZ : nat) : option nat :=
  match fuel with
  | O => None
  | S k => if TG <=? mtk KORR (MOZ - 1) then Some MOZ else month_search k KORR TG (S MOZ)
  end.

Definition kalender_date (MASDAT : Z) : option (Z * Z * Z) :=
  let YR0 := Z.quot MASDAT 365 in
  let YR := if Z.rem MASDAT 365 <=? Z.quot YR0 4 then YR0 - 1 else YR0 in
  let TG := MASDAT - YR * 365 - Z.quot YR 4 in
  let KORR := if (Z.rem (YR + 1) 4 =? 0) && (59 <? TG) then 1 else 0 in
  match month_search 12 KORR TG 1 with
  | None => None
  | Some MOZ =>
      let TG' := if Nat.ltb 1 MOZ then TG - mtk KORR (MOZ - 2) else TG in
      Some (YR + 1900 + 1, Z.of_nat MOZ, TG')
  end.

(* ---------- fmt.Sprintf("%02d"), ("%d") for non-negative arguments ---------- *)
Definition digit_char (d : Z) : ascii := ascii_of_N (Z.to_N (48 + d)).

Fixpoint dec_rev (fuel : nat) (n : Z) : lstr :=
  match fuel with
  | O => []
  | S k => if n <? 10 then [digit_char n] else digit_char (n mod 10) :: dec_rev k (n / 10)
  end.
Definition dec (n : Z) : lstr := rev (dec_rev 20 n).   (* 0 <= n < 10^20 *)
Definition pad2 (n : Z) : lstr := if n <? 10 then "0"%char :: dec n else dec n.

(* ---------- KalenderConverter ---------- *)
Definition render_date (f : datefmt) (sep : lstr) (year month day : Z) : lstr :=
  let YR := year - 1900 in
  let yy := if 99 <? YR then YR - 100 else YR in
  match f with
  | DElong  => pad2 day ++ sep ++ pad2 month ++ sep ++ dec year
  | DEshort => pad2 day ++ sep ++ pad2 month ++ sep ++ pad2 yy
  | ENlong  => pad2 month ++ sep ++ pad2 day ++ sep ++ dec year
  | ENshort => pad2 month ++ sep ++ pad2 day ++ sep ++ pad2 yy
  end.

Definition kalender_converter (f : datefmt) (sep : lstr) (MASDAT : Z) : option lstr :=
  match kalender_date MASDAT with
  | None => None
  | Some (year, month, day) => Some (render_date f sep year month day)
  end.

Definition is_short (f : datefmt) : bool :=
  match f with DEshort | ENshort => true | _ => false end.
