(* CtrlModel.v — the calendar part of the day loop of hermes/run.go: the (ZEIT, TAG, J, JTAG)
   stepping with year roll-over and reload (run.go:310-342), the start-year check (run.go:313-320),
   the weather record the day consumes (run.go:344-350), and the output triggers: daily record
   (run.go:661-675), yearly record (run.go:716-725), crop record (nitro.go:286,337-424 through
   [finished], run.go:633-640), OUTDAY / the ENDE extension (run.go:133-140).
   Everything else the day does (water, crop, nitrogen) is outside this model: it does not write
   TAG, J, JTAG, the weather arrays below index TAG of the current day before they are echoed, nor
   the three trigger conditions. *)
From Coq Require Import ZArith List Bool Lia.
From Hermes Require Import Num Calendar DateModel WeatherModel.
Import ListNotations.
Open Scope Z_scope.

(* ------------------------------------------------------------------ *)
(* calendar state: TAG.Index, J (year - 1900), JTAG                     *)

Record cal := mkcal { c_tag : Z; c_j : Z; c_jtag : Z }.

(* g.TAG.Add(1); if g.TAG.Index+1 > g.JTAG { g.J++; g.TAG.SetByIndex(0) }   (run.go:322-328) *)
Definition roll (tag j jtag : Z) : Z * Z :=
  let tag := tag + 1 in
  if tag + 1 >? jtag then (0, j + 1) else (tag, j).

(* [ly year] = Some JTAG when LoadYear finds the year, None when it returns its (discarded) error *)
Definition cal_step (ly : Z -> option Z) (s : cal) : cal :=
  let '(tag, j) := roll (c_tag s) (c_j s) (c_jtag s) in
  let jtag := if tag =? 0                                  (* g.TAG.Num == g.DT.Num: reload *)
              then match ly (1900 + j) with Some d => d | None => c_jtag s end
              else c_jtag s in
  mkcal tag j jtag.

(* before the loop: J = ANJAHR-1900, LoadYear(ANJAHR) (JTAG is 0 until a load succeeds),
   Init: TAG.Index = ITAG-2  (run.go:190,211-228, init.go:10) *)
Definition cal_init (ly : Z -> option Z) (anjahr itag : Z) : cal :=
  mkcal (itag - 2) (anjahr - 1900) (match ly anjahr with Some d => d | None => 0 end).

Fixpoint cal_iter (ly : Z -> option Z) (n : nat) (s : cal) : cal :=
  match n with O => s | S k => cal_step ly (cal_iter ly k s) end.

(* calendar state during the k-th simulated day (k = 0: ZEIT = BEGINN) *)
Definition cal_day (ly : Z -> option Z) (anjahr itag : Z) (k : nat) : cal :=
  cal_iter ly (S k) (cal_init ly anjahr itag).

(* "start year %v does not match beginn year %v" *)
Definition start_ok (beginn anjahr : Z) : bool :=
  match kalender_date beginn with Some (y, _, _) => y =? anjahr | None => false end.

Definition ndays (beginn ende : Z) : nat := Z.to_nat (ende - beginn + 1).

(* ------------------------------------------------------------------ *)
(* OUTDAY, ENDE extension (run.go:133-140)                              *)

Definition outday_of (d : Z) : Z := if d >? 365 then 365 else d.
Definition ende_ext (ende outy : Z) : Z := if outy >=? ende then outy + 1 else ende.

(* ------------------------------------------------------------------ *)
(* the simulated days with their weather record (C04)                   *)

Inductive runres (A : Type) := RunPanic | RunError | RunOk (a : A).
Arguments RunPanic {A}. Arguments RunError {A}. Arguments RunOk {A} a.

Section Sim.
  Context {T : Type} {NT : Num T} {Src : Type}.
  (* the weather source: state -> year -> (state', slot LoadYear found); None = index panic.
     multi-year layouts: the store read before the loop; per-year layout: WetterK then LoadYear *)
  Variable reload : Src -> Z -> option (Src * option (slot T)).
  (* ETpot = 3: Evatra floors g.WIND[TAG] of the current day in place (water.go:250,424), AFTER the
     echo was taken; visible only when the arrays are not reloaded for the next year (F9) *)
  Variable penman : bool.

  Record sim := mksim { m_src : Src; m_g : list (wrec T); m_cal : cal }.

  Definition sim_reload (src : Src) (g : list (wrec T)) (tag j jtag : Z) : option sim :=
    match reload src (1900 + j) with
    | None => None
    | Some (src', None) => Some (mksim src' g (mkcal tag j jtag))
    | Some (src', Some s) =>
        Some (mksim src' (overwrite (Z.to_nat (s_maxd s)) (s_cells s) g) (mkcal tag j (s_maxd s)))
    end.

  Definition sim_step (m : sim) : option sim :=
    let c := m_cal m in
    let '(tag, j) := roll (c_tag c) (c_j c) (c_jtag c) in
    if tag =? 0 then sim_reload (m_src m) (m_g m) tag j (c_jtag c)
    else Some (mksim (m_src m) (m_g m) (mkcal tag j (c_jtag c))).

  (* g.TEMPdaily = g.TEMP[g.TAG.Index] ... *)
  Definition echo (m : sim) : wrec T := nth (Z.to_nat (c_tag (m_cal m))) (m_g m) wzero.

  Definition after_day (m : sim) : sim :=
    if penman then
      let i := Z.to_nat (c_tag (m_cal m)) in
      let r := nth i (m_g m) wzero in
      if ltb (w_wind r) half then mksim (m_src m) (upd (m_g m) i (set_wind r half)) (m_cal m) else m
    else m.

  Fixpoint sim_days (n : nat) (z : Z) (m : sim) : option (list (Z * cal * wrec T)) :=
    match n with
    | O => Some []
    | S k => match sim_step m with
             | None => None
             | Some m' => match sim_days k (z + 1) (after_day m') with
                          | None => None
                          | Some l => Some ((z, m_cal m', echo m') :: l)
                          end
             end
    end.

  Definition run_sim (src0 : Src) (anjahr beginn itag ende : Z) : runres (list (Z * cal * wrec T)) :=
    match sim_reload src0 (repeat wzero 366) (itag - 2) (anjahr - 1900) 0 with
    | None => RunPanic
    | Some m0 =>
        if ende <? beginn then RunOk []
        else if negb (start_ok beginn anjahr) then RunError
        else match sim_days (ndays beginn ende) beginn m0 with
             | None => RunPanic
             | Some l => RunOk l
             end
    end.
End Sim.

Section Sources.
  Context {T : Type} {NT : Num T}.

  Definition reload_multi (st : store T) (year : Z) : option (store T * option (slot T)) :=
    Some (st, find_year st year).

  (* ReadWeatherCSV / ReadWeatherCZ before the loop: years = year(ENDE) - ANJAHR + 1 slots; an error
     of the reader IS returned by the run (run.go:204-229) *)
  Definition run_multi (penman : bool) (none : T) (corr : list T) (recs : list (mrec T)) (anjahr beginn itag ende : Z)
    : runres (list (Z * cal * wrec T)) :=
    match kalender_date ende with
    | None => RunPanic
    | Some (ye, _, _) =>
        match new_store (T:=T) (ye - anjahr + 1) with
        | None => RunPanic
        | Some _ =>
            match read_multi none corr anjahr (ye - anjahr + 1) recs with
            | None => RunError
            | Some st => run_sim reload_multi penman st anjahr beginn itag ende
            end
        end
    end.

  (* per-year files: year -> records (day-of-year column, values); absent = no such file *)
  Definition files := list (Z * list (Z * wrec T)).
  (* the file of a year is found by its NAME: path.go yearToExtension(J), J = year - 1900:
     J < 100 -> "9" ++ decimal J;  J >= 100 -> "0" ++ second and third digit of decimal J.  So the
     years 2003, 2103, 2203 share the extension "003": when the year counter runs away (F9: short
     JTAG, roll-over every few days) the run re-opens the files of the real years under later year
     numbers.  [ext_key] = an injective code of that extension. *)
  Definition ext_key (year : Z) : Z :=
    let j := year - 1900 in
    if j <? 100 then j
    else if j <? 1000 then 100 + j mod 100
    else if j <? 10000 then 100 + (j / 10) mod 100
    else if j <? 100000 then 100 + (j / 100) mod 100
    else 100 + (j / 1000) mod 100.

  Fixpoint file_of (fs : files) (year : Z) : option (list (Z * wrec T)) :=
    match fs with
    | [] => None
    | (y, recs) :: rest => if ext_key y =? ext_key year then Some recs else file_of rest year
    end.

  Definition reload_year (none : T) (corr : list T) (src : store T * files) (year : Z)
    : option (store T * files * option (slot T)) :=
    let '(st, fs) := src in
    match wetterk none corr year (file_of fs year) st with
    | None => None
    | Some (st', _) => Some (st', fs, find_year st' year)       (* error discarded: run.go:218,339 *)
    end.

  Definition run_peryear (penman : bool) (none : T) (corr : list T) (fs : files) (anjahr beginn itag ende : Z)
    : runres (list (Z * cal * wrec T)) :=
    run_sim (reload_year none corr) penman ([empty_slot], fs) anjahr beginn itag ende.
End Sources.

(* ------------------------------------------------------------------ *)
(* output events (C05)                                                  *)

Inductive event := Daily (z : Z) | Annual (z : Z) | Crop (k : Z).

Record evst := mkev { v_cal : cal; v_akf : nat }.

Section Events.
  Variable ly : Z -> option Z.        (* JTAG of a year as LoadYear reports it *)
  Variable outint outday : Z.
  Variable ernte : list Z.            (* ERNTE[0..m-1]; entries beyond the rotation are 0 *)

  Definition day_events (z : Z) (st : evst) : evst * list event :=
    let c := cal_step ly (v_cal st) in
    let akf := v_akf st in
    (* Nitro, first sub-step: zeit == ERNTE[AKF.Index]; record when AKF.Num > 1; AKF.Inc() *)
    let '(akf', crop) := if z =? nth akf ernte 0
                         then (S akf, if (1 <=? akf)%nat then [Crop (Z.of_nat akf + 1)] else [])
                         else (akf, []) in
    let daily := if (0 <? outint) && (Z.rem z outint =? 0) then [Daily z] else [] in
    let annual := if c_tag c + 1 =? outday then [Annual z] else [] in
    (mkev c akf', crop ++ daily ++ annual).

  Fixpoint events_from (n : nat) (z : Z) (st : evst) : list event :=
    match n with
    | O => []
    | S k => let '(st', ev) := day_events z st in ev ++ events_from k (z + 1) st'
    end.

  (* None: the run returns the start-year error before the first day *)
  Definition run_events (anjahr beginn itag ende : Z) : option (list event) :=
    if ende <? beginn then Some []
    else if negb (start_ok beginn anjahr) then None
    else Some (events_from (ndays beginn ende) beginn (mkev (cal_init ly anjahr itag) 0)).
End Events.

Definition daily_of (l : list event) : list Z :=
  flat_map (fun e => match e with Daily z => [z] | _ => [] end) l.
Definition annual_of (l : list event) : list Z :=
  flat_map (fun e => match e with Annual z => [z] | _ => [] end) l.
Definition crop_of (l : list event) : list Z :=
  flat_map (fun e => match e with Crop k => [k] | _ => [] end) l.

(* ------------------------------------------------------------------ *)
(* configuration -> loop bounds, as run.go/config.go/input.go derive them (DateDElong):
   BEGINN, ITAG from the harvest date of the first rotation entry; ENDE from EndDate;
   OUTDAY, OUTY from AnnualOutputDate + year of EndDate *)

Record bounds := mkb { b_beginn : Z; b_itag : Z; b_ende : Z; b_outday : Z }.

Definition bounds_of (sd sm sy ed em ey ad am : Z) : option bounds :=
  match masdat_num sd sm (sy - 1900), masdat_num ed em (ey - 1900), masdat_num ad am (ey - 1900) with
  | Some (itag, beginn), Some (_, ende), Some (od, outy) =>
      Some (mkb beginn itag (ende_ext ende outy) (outday_of od))
  | _, _, _ => None
  end.

(* ------------------------------------------------------------------ *)
(* OutFmtModel: output_fmt.go, binding of a column (LoadHermesOutputConfig:2090-2135) and
   the dispatch of WriteLine (2141-2181) at the level "one field per column"            *)

Inductive gotype :=
| TFloat | TInt | TString | TBool | TNamed                 (* named integer types (CropType ...) *)
| TArray (n : nat) (e : gotype) | TSliceFloat | TSliceOther
| TStruct (fields : list (nat * gotype)).                  (* field names as numbers *)

(* what valueRef holds after binding *)
Inductive vref := RFloat | RInt | RString | RNa | RSliceFloat | ROther.

Fixpoint field_of (fs : list (nat * gotype)) (name : nat) : option gotype :=
  match fs with
  | [] => None
  | (n, t) :: r => if Nat.eqb n name then Some t else field_of r name
  end.

Definition ref_of (t : gotype) : vref :=
  match t with
  | TFloat => RFloat | TInt => RInt | TString => RString | TSliceFloat => RSliceFloat
  | _ => ROther            (* *bool, *CropType, *[]int, *[n]T, *struct: default branch *)
  end.

(* [t] = type of the field named VarName (None: no such field -> NaValue) *)
Definition bind (t : option gotype) (sub : nat) (idx1 idx2 : nat) : vref :=
  match t with
  | None => RNa
  | Some t =>
      let t1 := match t with TStruct fs => field_of fs sub | _ => Some t end in
      match t1 with
      | None => RNa
      | Some (TArray n e) =>
          if (n <=? idx1)%nat then RNa else
          match e with
          | TArray n2 e2 => if (n2 <=? idx2)%nat then RNa else ref_of e2
          | _ => ref_of e
          end
      | Some t2 => ref_of t2
      end
  end.

Definition supported (r : vref) : bool := match r with ROther => false | _ => true end.

(* the fields WriteLine adds for the columns, each rendered by [render] *)
Definition fields {A : Type} (render : vref -> A) (cols : list vref) : list A :=
  flat_map (fun c => if supported c then [render c] else []) cols.

(* writeHermesString refuses a line whose field count differs from the column count (the error is
   dropped by run.go, nothing is written); writeCSVString writes what there is *)
Definition write_line {A : Type} (csv : bool) (render : vref -> A) (cols : list vref) : option (list A) :=
  let fs := fields render cols in
  if csv then Some fs else if Nat.eqb (length fs) (length cols) then Some fs else None.
