(* Prop_C09b.v — property C09, second layer: N-content functions, N concentrations after the uptake, explicit
   denominators, uptake against supply, conservation of dry matter in partitioning and organ update.
   Stated about CropNModel / CropModel (compared bit for bit with traced PhytoOut transitions) read over the
   reals.  Only statements here. *)
From Coq Require Import ZArith Reals List Bool.
From Hermes Require Import Num RUtil CropModel CropProofs CropNModel CropNProofs.
Import ListNotations.
Local Open Scope R_scope.

(* N-content functions 1..9 (crop.go:313-419).  (1) GEHMIN > 0 and GEHMAX > 0 for every state whenever the oracle values of
   Exp / Pow are positive (function 2: also <= 1; function 5: parameter RGA > 0).  (2) The real exponential delivers such values
   for every non-positive argument.  (3) The arguments the model passes to Exp ARE non-positive: functions 1, 4, 6, 8, 9 for
   non-negative PHYLLO / masses (function 8 divides by (tendsum-200)/1060: parameter precondition tendsum > 200, NOT guarded by
   the code), (4) function 2 beyond its thresholds 263 / 142 degree days, given the bound nc_lg < -1.22 on its logarithm constant math.Log(1 - math.Sqrt2/2)
   (that bound is CropNProofs.lg_bound, proved with Coq-Interval; it is kept out of this file only because printing the
   assumptions of an Interval proof costs 7 s on every run) *)
Theorem C09_ncontent_partial :
  (forall (x : nc_in (T:=R)) (mn mx : R),
  nc_oracle_ok x -> ncontent x = Some (mn, mx) -> 0 < mn /\ 0 < mx)
  /\
  (forall (a : R),
  a <= 0 -> 0 < exp a <= 1)
  /\
  (forall (x : nc_in (T:=R)),
  0 <= nc_phyllo x -> 0 <= nc_obmas x -> 0 <= nc_worg3 x -> nc_lg x < -122 / 100 ->
  (nc_fkt x = 8%Z -> 200 < nc_tendsum x) ->
  (nc_fkt x = 1 \/ nc_fkt x = 4 \/ nc_fkt x = 6 \/ nc_fkt x = 8 \/ nc_fkt x = 9)%Z ->
  fst (nc_args x) <= 0 /\ snd (nc_args x) <= 0)
  /\
  (forall (x : nc_in (T:=R)),
  nc_fkt x = 2%Z -> nc_lg x < -122 / 100 ->
  (263 <= nc_phyllo x -> fst (nc_args x) <= 0) /\ (142 <= nc_phyllo x -> snd (nc_args x) <= 0)).
Proof. exact (conj ncontent_pos_lemma (conj exp_nonpos_range (conj nc_args_nonpos_lemma nc_args_nonpos_2_lemma))). Qed.

(* Every division of the modelled N code has a positive denominator under the guards the code itself evaluates:
   (1) root concentration update crop.go:741-750 (WUMAS > WUMALT >= 0, guard > 0, WORG[3] >= 0); (2) per-layer uptake crop.go:709, 712
   (branch conditions); (3) organs 1-3 the crop has are strictly positive after the daily update, (4) hence OBMAS, the denominator
   of GEHOB (crop.go:757, 762), is positive as soon as one of them is above ground.  (REDUK: C09_reduk_range_exp_partial.) *)
Theorem C09_denominators_partial :
  (forall (x : nq_in (T:=R)),
  0 <= nq_wumalt x -> 0 <= nq_worg3 x ->
  nq_wumalt x < nq_wumas x -> 0 < nq_guard x ->
  0 < nq_wumas x /\
  0 < (if nq_zrk x then nq_obmas x + nq_worg3 x - nq_obalt x + nq_wumas x - nq_wumalt x
       else nq_obmas x - nq_obalt x + nq_wumas x - nq_wumalt x))
  /\
  (forall (d T S : R),
  0 < d -> (d <= T -> 0 < T) /\ (T < d -> d - T < S -> 0 < S))
  /\
  (forall (x : organ_in (T:=R)) (s : organ_st (T:=R)) (i : nat),
  (i < oi_nrkom x)%nat -> (i < 3)%nat -> (oi_nrkom x <= length (os_worg s))%nat ->
  0 < cg (os_worg (organs_day x s)) i)
  /\
  (forall (worg : list R) (above : list nat),
  (forall i, 0 <= cg worg i) -> (exists a, In a above /\ 0 < cg worg (a - 1)) -> 0 < obmas_of worg above).
Proof. exact (conj nq_denominators_lemma (conj pe_denominators_lemma (conj organs_day_worg_pos obmas_pos_lemma))). Qed.

(* GEHOB >= 0 and WUGEH >= 0 after the uptake (crop.go:741-763) when the root share of the uptake is <= 1, the old root N lies
   within the crop's N, and the floor 0.005 / an unchanged concentration fit into the crop's N; and the beet / potato correction of
   WUGEH (crop.go:758-760) is the identity in exact arithmetic *)
Theorem C09_nquota_nonneg_partial :
  (forall (x : nq_in (T:=R)),
  0 <= nq_wumalt x -> 0 <= nq_wugeh x -> 0 <= nq_worg3 x -> 0 <= nq_uptake x ->
  0 < nq_shoot x -> 0 < nq_wumas x ->
  nq_wumalt x * nq_wugeh x <= nq_pesum x ->
  (nq_wumalt x < nq_wumas x -> 5 / 1000 * nq_wumas x <= nq_pesum x + nq_uptake x) ->
  (nq_wumalt x < nq_wumas x -> nq_guard x <= 0 -> nq_wumas x * nq_wugeh x <= nq_pesum x + nq_uptake x) ->
  (nq_wumalt x < nq_wumas x -> 0 < nq_guard x -> root_share x <= 1) ->
  0 <= fst (nquota x) /\ 0 <= snd (nquota x))
  /\
  (forall (x : nq_in (T:=R)),
  nq_zrk x = true -> nq_obmas x + nq_worg3 x <> 0 -> nq_wumas x <> 0 -> snd (nquota x) = wugeh_of x).
Proof. exact (conj nquota_nonneg_lemma zrk_correction_noop_lemma). Qed.

(* F24: without 'root share <= 1' the claim is false: all other hypotheses hold, the share is 2, GEHOB < 0 *)
Theorem C09_gehob_negative_refuted :
  let x := f24_witness in
  0 <= nq_wumalt x /\ 0 <= nq_wugeh x /\ 0 <= nq_uptake x /\ 0 < nq_shoot x /\ 0 < nq_wumas x /\
  nq_wumalt x * nq_wugeh x <= nq_pesum x /\ 5 / 1000 * nq_wumas x <= nq_pesum x + nq_uptake x /\
  nq_wumalt x < nq_wumas x /\ 0 < nq_guard x /\
  root_share x = 2 /\ fst (nquota x) < 0.
Proof. exact f24_refuted_lemma. Qed.

(* the uptake from a layer never exceeds its mass-flow + diffusion supply (non-negative supplies) *)
Theorem C09_uptake_le_supply_partial :
  forall (d T S m df c : R),
  0 <= m -> 0 <= df -> pe_layer d T S m df c <= m + df.
Proof. exact pe_layer_le_supply. Qed.

(* Partitioning (crop.go:457).  (1) With both table rows summing to 1 the organs receive 0.7*GTW*REDUK minus maintenance, and
   growth + growth respiration + assimilate pool = GTW; (2) the same for decimal tables as written in the parameter files whose rows
   pass the boolean check [row_ok]; (3) that check is sound (entries >= 0, exact sum 1 over the reals); (4) a checked table has a
   row of shares at every stage but possibly the last *)
Theorem C09_partition_conservation_partial :
  (forall (x : organ_in (T:=R)) (idx : list nat),
  oi_sumk x / oi_tsumk x <= 1 ->
  Rsum (col (oi_pro_lo x) idx) = 1 -> Rsum (col (oi_pro_hi x) idx) = 1 ->
  Rsum (map (growth_rate x) idx) + Rsum (col (oi_mterm x) idx) = 7 / 10 * oi_gtw x * oi_reduk x /\
  (* growth incl. maintenance + growth respiration + assimilate pool = GTW *)
  (Rsum (map (growth_rate x) idx) + Rsum (col (oi_mterm x) idx)) + 3 / 10 * oi_gtw x * oi_reduk x
    + aspoo_of (oi_gtw x) (oi_reduk x) = oi_gtw x)
  /\
  (forall (t : list (list (Z * nat))) (dead : list (list R)) (k n : nat) (x : organ_in (T:=R)),
  row_ok (nth (k - 1) t []) = true -> row_ok (nth k t []) = true ->
  length (nth (k - 1) t []) = n -> length (nth k t []) = n ->
  oi_sumk x / oi_tsumk x <= 1 ->
  let x' := organ_in_of_tables (dec_table t) dead k x in
  Rsum (map (growth_rate x') (seq 0 n)) + Rsum (col (oi_mterm x) (seq 0 n)) = 7 / 10 * oi_gtw x * oi_reduk x /\
  (Rsum (map (growth_rate x') (seq 0 n)) + Rsum (col (oi_mterm x) (seq 0 n))) + 3 / 10 * oi_gtw x * oi_reduk x
    + aspoo_of (oi_gtw x) (oi_reduk x) = oi_gtw x)
  /\
  (forall (r : list (Z * nat)),
  row_ok r = true -> Rsum (dec_row r) = 1 /\ Forall (fun v => 0 <= v) (dec_row (T:=R) r))
  /\
  (forall (t : list (list (Z * nat))) (k : nat),
  table_ok t = true -> (S k < length t)%nat -> row_ok (nth k t []) = true).
Proof. exact (conj partition_conservation_lemma (conj table_partition_lemma (conj row_ok_lemma table_ok_rows))). Qed.

(* Conservation of dry matter in the daily organ update, every stage / table / state: mass change = growth - death + handed-on
   dead mass [tr] (0 in the last stage and for <= 3 organs) + 0.1 kg/ha per floored organ [0 <= fl <= nrkom/10]; the stored
   growth rates are the partition formula *)
Theorem C09_dry_matter_conservation_partial :
  forall (x : organ_in (T:=R)) (s : organ_st (T:=R)),
  oi_dt x <> 0 ->
  (oi_nrkom x <= length (os_worg s))%nat -> (oi_nrkom x <= length (os_gorg s))%nat -> (oi_nrkom x <= length (os_dgorg s))%nat ->
  let '(s', (tr, fl)) := organs_ledger x s in
  let idx := seq 0 (oi_nrkom x) in
  s' = organs_day x s /\
  Rsum (col (os_worg s') idx) =
    Rsum (col (os_worg s) idx) + oi_dt x * Rsum (col (os_gorg s') idx) - oi_dt x * Rsum (col (os_dgorg s') idx) + tr + fl /\
  0 <= fl <= INR (oi_nrkom x) / 10 /\
  (oi_last x = true -> tr = 0) /\ ((oi_nrkom x <= 3)%nat -> tr = 0) /\
  (forall i, (i < oi_nrkom x)%nat -> cg (os_gorg s') i = growth_rate x i).
Proof. exact dry_matter_lemma. Qed.

(* Daily gross assimilation (crop.go:919-978, inside radia): (1) GPHOT >= 0, MAINT >= 0 and GTW = GPHOT + ASPOO >= 0 whenever the
   light-response values DGAC, DGAO are >= 0, the day length is positive, TRREL and the potential maintenance are >= 0 and - on
   days without radiation data - the sunshine duration handed to radia() is >= 0 (checked on every traced crop day);
   (2) that hypothesis is needed: the missing-value marker -99.9 h gives GPHOT < 0.  Tied bit for bit since round 9: the
   harness carries a verbatim shadow of radia() with a recorder for DGAC/DGAO and the other locals, compares the shadow with the real
   kernel (hook VerifRadia) and with the run (GPPdaily) on every traced crop day, and C09Corr.assim_check runs assim_of on the
   recorded locals against GPHOT / MAINT of the real kernel *)
Theorem C09_assimilation_nonneg_partial :
  (forall (x : as_in (T:=R)),
  0 <= as_dgac x -> 0 <= as_dgao x -> 0 < as_dle x -> 0 <= as_trrel x -> 0 <= as_maint_pot x ->
  (as_rad x = 0 -> 0 <= as_sund x) ->
  0 <= fst (assim_of x) /\ 0 <= snd (assim_of x) /\
  (forall aspoo, 0 <= aspoo -> 0 <= fst (assim_of x) + aspoo))
  /\
  (let x := {| as_rad := 0; as_sund := -999 / 10; as_dle := 14; as_dgac := 400; as_dgao := 150; as_drc := 1;
              as_trrel := 1; as_vswell := 1; as_maint_pot := 20; as_cold := false |} in
  0 <= as_dgac x /\ 0 <= as_dgao x /\ 0 < as_dle x /\ 0 <= as_trrel x /\ 0 <= as_maint_pot x /\ fst (assim_of x) < 0).
Proof. exact (conj assim_nonneg_lemma assim_negative_witness). Qed.

(* Day lengths of CalculateDayLenght (solar.go:19-27), the driver of radia() and the phenology: (1) 0 <= hours <= 24 whenever the
   arcsine oracle lies in [-pi/2, pi/2]; (2) with the true arcsine and pi: for ALL values of SINLD, COSLD (every latitude strictly
   between the poles, every day) the three arguments lie in [-1,1] - the clamp is applied AFTER the twilight shift - and
   0 <= DL, DLE, DLP <= 24.  Season means of the crop record (nitro.go:327-328): (3) in [0,1] for factors in [0,1] and every positive
   number of days ERNTE - SAAT; (4) a difference of day-of-year numbers is negative for crops growing across the turn of the year *)
Theorem C09_daylength_season_mean_partial :
  (forall (pi v : R),
  0 < pi -> - (pi / 2) <= v <= pi / 2 -> 0 <= dl_hours pi v <= 24)
  /\
  (forall (sinld cosld s8 s6 : R),
  let a := dl_args {| dl_sinld := sinld; dl_cosld := cosld; dl_s8 := s8; dl_s6 := s6; dl_pi := PI; dl_v0 := 0; dl_v1 := 0; dl_v2 := 0 |} in
  let x := {| dl_sinld := sinld; dl_cosld := cosld; dl_s8 := s8; dl_s6 := s6; dl_pi := PI;
              dl_v0 := asin (fst (fst a)); dl_v1 := asin (snd (fst a)); dl_v2 := asin (snd a) |} in
  (-1 <= fst (fst a) <= 1 /\ -1 <= snd (fst a) <= 1 /\ -1 <= snd a <= 1) /\
  (0 <= fst (fst (daylengths x)) <= 24 /\ 0 <= snd (fst (daylengths x)) <= 24 /\ 0 <= snd (daylengths x) <= 24))
  /\
  (forall (vs : list R) (saat ernte : Z),
  Forall (fun v => 0 <= v <= 1) vs -> (saat < ernte)%Z -> (Z.of_nat (length vs) <= ernte - saat)%Z ->
  0 <= season_mean (Rsum vs) saat ernte <= 1)
  /\
  (let sow_doy := 278%Z in let harvest_doy := 213%Z in
  @div R RNum 150 (ofZ (harvest_doy - sow_doy)) < 0).
Proof. exact (conj dl_hours_range (conj daylengths_range_lemma (conj season_mean_range_lemma season_mean_doy_witness))). Qed.

(* Stage days of the crop record (any numeric type): after the per-crop reset at sowing (every stage day 0 beyond the current stage)
   the day of every stage the crop has NOT reached is still 0 after any sequence of days - a crop record never shows a stage day this
   crop did not produce.  That the real readers perform this reset is checked on every traced sowing (state after the sowing day) and
   on every crop record (file and state at harvest) *)
Theorem C09_stage_days_partial :
  forall (T : Type) (NT : Num T) (xs : list (stage_in (T:=T))) (s : stage_st (T:=T)),
  dev_clean s -> dev_clean (stage_run xs s).
Proof. exact (@stage_days_lemma). Qed.

(* non-vacuity: the shipped winter-wheat rows 1 and 2 are rows of shares *)
Example C09b_nonvacuous : row_ok [(5, 1%nat); (5, 1%nat); (0, 0%nat); (0, 0%nat)]%Z = true /\ row_ok [(2, 1%nat); (6, 1%nat); (2, 1%nat); (0, 0%nat)]%Z = true.
Proof. exact (conj eq_refl eq_refl). Qed.

Print Assumptions C09_ncontent_partial.
Print Assumptions C09_denominators_partial.
Print Assumptions C09_nquota_nonneg_partial.
Print Assumptions C09_gehob_negative_refuted.
Print Assumptions C09_uptake_le_supply_partial.
Print Assumptions C09_partition_conservation_partial.
Print Assumptions C09_dry_matter_conservation_partial.
Print Assumptions C09_assimilation_nonneg_partial.
Print Assumptions C09_daylength_season_mean_partial.
Print Assumptions C09_stage_days_partial.
