(* NitroRun.v — C07 over a whole RUN: "dissolved fertiliser never exceeds fertiliser applied" as an invariant of every
   reachable state, by induction over the sequence of the operations that touch the two totals:
     fertiliser application (DSUMM grows by the mineral part, >= 0), the mineralisation call of a layer (either
     temperature branch), the overwrite on a measurement day and the reset at the start of a run (both totals := 0).
   The frozen branch needs WMIN < WRED in the top layer (the branch that divides by PORGES[0] - W is only taken when
   W + 0.01 < WG < PORGES[0]): that is what C15 establishes (the C15_wred_between theorems). *)
From Coq Require Import ZArith Reals List Bool Lra Lia.
From Hermes Require Import Num RUtil NitroModel NitroProofs.
Import ListNotations.
Local Open Scope R_scope.

Lemma div_le_1 a b : 0 < b -> a <= b -> a / b <= 1.
Proof.
  intros Hb Hab. unfold Rdiv. replace 1 with (b * / b) by (field; lra).
  apply Rmult_le_compat_r; [left; apply Rinv_0_lt_compat; exact Hb | exact Hab].
Qed.

Lemma ums_bounded_frozen z (l : mineral_layer_in (T:=R)) (g : mineral_glob (T:=R)) :
  0 <= mg_ums g <= mg_dsumm g -> ml_tempbo l <= 0 ->
  ml_wmin l < mg_wred g ->
  let '(o, g') := mineral_layer z l g in mg_ums g <= mg_ums g' <= mg_dsumm g /\ mg_dsumm g' = mg_dsumm g.
Proof.
  intros Hu Ht Hw. unfold mineral_layer. rsimp.
  destruct (RI.ltb_spec 0 (ml_tempbo l)) as [Hc|_]; [lra|]. lazy beta iota zeta. cbn [mg_ums mg_dsumm].
  assert (Hd : @dec R RNum 4 1 = 4 / 10) by (unfold dec; cbn; lra).
  assert (Hd2 : @dec R RNum 1 2 = 1 / 100) by (unfold dec; cbn; lra).
  destruct (Nat.eqb z 1); [|split; [lra | reflexivity]].
  set (wg := ml_wg0 l).
  set (m0 := if (RI.ltb wg (ml_w l) && gtb wg (mg_wred g))%bool then 1
             else if RI.ltb wg (mg_wred g) then (wg - ml_wmin l) / (mg_wred g - ml_wmin l)
             else if (gtb wg (ml_w l + dec 1 2) && RI.ltb wg (mg_porges0 g))%bool
                  then (mg_porges0 g - wg) / (mg_porges0 g - ml_w l)
                  else if gtb wg (mg_porges0 g) then 0 else 1).
  assert (Hm : m0 <= 1).
  { unfold m0. destruct (RI.ltb wg (ml_w l) && gtb wg (mg_wred g))%bool; [lra|].
    destruct (RI.ltb_spec wg (mg_wred g)) as [H1|H1].
    - apply div_le_1; lra.
    - destruct (gtb wg (ml_w l + dec 1 2) && RI.ltb wg (mg_porges0 g))%bool eqn:E.
      + apply andb_true_iff in E. destruct E as [E1 E2]. apply gtbR in E1. rewrite Hd2 in E1.
        destruct (RI.ltb_spec wg (mg_porges0 g)) as [E2'|E2']; [|discriminate].
        apply div_le_1; lra.
      + destruct (gtb wg (mg_porges0 g)); lra. }
  set (m := if RI.ltb m0 0 then 0 else m0).
  assert (Hm01 : 0 <= m <= 1) by (unfold m; destruct (RI.ltb_spec m0 0); lra).
  rewrite Hd. split; [|reflexivity].
  change (mg_ums g <= mg_ums g + 4 / 10 * m * (mg_dsumm g - mg_ums g) <= mg_dsumm g). split; nra.
Qed.

(* the operations of a run that touch the two totals *)
Inductive nop : Type :=
| OpFert (ndir : R)                                             (* a fertiliser event: mineral part ndir *)
| OpMineral (z : nat) (l : mineral_layer_in (T:=R))               (* mineralisation call of layer z on some day *)
| OpReset.                                                        (* measurement overwrite / start of a run *)

Definition set_totals (g : mineral_glob (T:=R)) (dsumm ums : R) : mineral_glob (T:=R) :=
  {| mg_wred := mg_wred g; mg_porges0 := mg_porges0 g; mg_dsumm := dsumm; mg_ums := ums;
     mg_nh4sum := mg_nh4sum g; mg_nh4ums := mg_nh4ums g; mg_n2onitsum := mg_n2onitsum g;
     mg_n2onitdaily := mg_n2onitdaily g; mg_minsum := mg_minsum g |}.

Definition nstep (g : mineral_glob (T:=R)) (o : nop) : mineral_glob (T:=R) :=
  match o with
  | OpFert d => set_totals g (mg_dsumm g + d) (mg_ums g)
  | OpMineral z l => snd (mineral_layer z l g)
  | OpReset => set_totals g 0 0
  end.

Definition op_ok (g : mineral_glob (T:=R)) (o : nop) : Prop :=
  match o with
  | OpFert d => 0 <= d
  | OpMineral z l => 0 < ml_tempbo l \/ ml_wmin l < mg_wred g
  | OpReset => True
  end.

Definition totals_inv (g : mineral_glob (T:=R)) : Prop := 0 <= mg_ums g <= mg_dsumm g.

Lemma nstep_inv g o : totals_inv g -> op_ok g o -> totals_inv (nstep g o).
Proof.
  unfold totals_inv. intros Hi Ho. destruct o as [d|z l|]; cbn [nstep op_ok] in *.
  - cbn. lra.
  - destruct (Rlt_le_dec 0 (ml_tempbo l)) as [Hw|Hc].
    + pose proof (ums_bounded_lemma z l g Hi Hw) as H.
      pose proof (mineral_layer_books z l g) as HB.
      destruct (mineral_layer z l g) as [o g']. cbn [snd]. destruct HB as (_ & _ & _ & _ & _ & _ & Hd & _). lra.
    + destruct Ho as [Hw|H1]; [lra|].
      pose proof (ums_bounded_frozen z l g Hi Hc H1) as H.
      destruct (mineral_layer z l g) as [o g']. cbn [snd]. destruct H as [H Hd]. lra.
  - cbn. lra.
Qed.

(* WRED and PORGES[0] are not changed by any of the operations: the parameter hypothesis of later steps can be stated
   about the run's constants *)
Lemma nstep_params g o : mg_wred (nstep g o) = mg_wred g /\ mg_porges0 (nstep g o) = mg_porges0 g.
Proof.
  destruct o as [d|z l|]; cbn [nstep]; try (cbn; split; reflexivity).
  unfold mineral_layer. destruct (gtb (ml_tempbo l) zero); cbn; split; reflexivity.
Qed.

Fixpoint ops_ok (g : mineral_glob (T:=R)) (ops : list nop) : Prop :=
  match ops with [] => True | o :: r => op_ok g o /\ ops_ok (nstep g o) r end.

Lemma run_totals_inv ops : forall g, totals_inv g -> ops_ok g ops -> totals_inv (fold_left nstep ops g).
Proof.
  induction ops as [|o r IH]; intros g Hi Ho; cbn [fold_left]; [exact Hi|].
  destruct Ho as [H1 H2]. apply IH; [apply nstep_inv; assumption | exact H2].
Qed.
