(* NitroRun.v — C07 over a whole RUN: "dissolved fertiliser never exceeds fertiliser applied" as an invariant of every
   reachable state, by induction over the sequence of the operations that touch the two totals:
     fertiliser application (DSUMM grows by the mineral part, >= 0), the mineralisation call of a layer (either
     temperature branch), the overwrite on a measurement day and the reset at the start of a run (both totals := 0).
   The frozen branch needs WMIN < WRED in the top layer (the branch that divides by PORGES[0] - W is only taken when
   W + 0.01 < WG < PORGES[0]): that is what C15 establishes (the C15_wred_between theorems). *)
From Coq Require Import ZArith Reals List Bool Lra Lia Psatz.
From Hermes Require Import Num RUtil NitroModel NitroProofs.
Import ListNotations.
Local Open Scope R_scope.

Lemma div_le_1 a b : 0 < b -> a <= b -> a / b <= 1.
Proof.
  intros Hb Hab. unfold Rdiv. replace 1 with (b * / b) by (field; lra).
  apply Rmult_le_compat_r; [left; apply Rinv_0_lt_compat; exact Hb | exact Hab].
Qed.

Lemma ums_bounded_frozen z (l : mineral_layer_in (T:=R)) (g : mineral_glob (T:=R)) :
  0 <= mg_ums g <= mg_dsumm g -> ml_tempbo l <= 0 ->
  ml_wmin l < mg_wred g ->
  let '(o, g') := mineral_layer z l g in mg_ums g <= mg_ums g' <= mg_dsumm g /\ mg_dsumm g' = mg_dsumm g.
Proof.
  intros Hu Ht Hw. unfold mineral_layer. rsimp.
  destruct (RI.ltb_spec 0 (ml_tempbo l)) as [Hc|_]; [lra|]. lazy beta iota zeta. cbn [mg_ums mg_dsumm].
  assert (Hd : @dec R RNum 4 1 = 4 / 10) by (unfold dec; cbn; lra).
  assert (Hd2 : @dec R RNum 1 2 = 1 / 100) by (unfold dec; cbn; lra).
  destruct (Nat.eqb z 1); [|split; [lra | reflexivity]].
  set (wg := ml_wg0 l).
  set (m0 := if (RI.ltb wg (ml_w l) && gtb wg (mg_wred g))%bool then 1
             else if RI.ltb wg (mg_wred g) then (wg - ml_wmin l) / (mg_wred g - ml_wmin l)
             else if (gtb wg (ml_w l + dec 1 2) && RI.ltb wg (mg_porges0 g))%bool
                  then (mg_porges0 g - wg) / (mg_porges0 g - ml_w l)
                  else if gtb wg (mg_porges0 g) then 0 else 1).
  assert (Hm : m0 <= 1).
  { unfold m0. destruct (RI.ltb wg (ml_w l) && gtb wg (mg_wred g))%bool; [lra|].
    destruct (RI.ltb_spec wg (mg_wred g)) as [H1|H1].
    - apply div_le_1; lra.
    - destruct (gtb wg (ml_w l + dec 1 2) && RI.ltb wg (mg_porges0 g))%bool eqn:E.
      + apply andb_true_iff in E. destruct E as [E1 E2]. apply gtbR in E1. rewrite Hd2 in E1.
        destruct (RI.ltb_spec wg (mg_porges0 g)) as [E2'|E2']; [|discriminate].
        apply div_le_1; lra.
      + destruct (gtb wg (mg_porges0 g)); lra. }
  set (m := if RI.ltb m0 0 then 0 else m0).
  assert (Hm01 : 0 <= m <= 1) by (unfold m; destruct (RI.ltb_spec m0 0); lra).
  rewrite Hd. split; [|reflexivity].
  change (mg_ums g <= mg_ums g + 4 / 10 * m * (mg_dsumm g - mg_ums g) <= mg_dsumm g). split; nra.
Qed.

(* the operations of a run that touch the two totals *)
Inductive nop : Type :=
| OpFert (ndir : R)                                             (* a fertiliser event: mineral part ndir *)
| OpMineral (z : nat) (l : mineral_layer_in (T:=R))               (* mineralisation call of layer z on some day *)
| OpReset.                                                        (* measurement overwrite / start of a run *)

Definition set_totals (g : mineral_glob (T:=R)) (dsumm ums : R) : mineral_glob (T:=R) :=
  {| mg_wred := mg_wred g; mg_porges0 := mg_porges0 g; mg_dsumm := dsumm; mg_ums := ums;
     mg_nh4sum := mg_nh4sum g; mg_nh4ums := mg_nh4ums g; mg_n2onitsum := mg_n2onitsum g;
     mg_n2onitdaily := mg_n2onitdaily g; mg_minsum := mg_minsum g |}.

Definition nstep (g : mineral_glob (T:=R)) (o : nop) : mineral_glob (T:=R) :=
  match o with
  | OpFert d => set_totals g (mg_dsumm g + d) (mg_ums g)
  | OpMineral z l => snd (mineral_layer z l g)
  | OpReset => set_totals g 0 0
  end.

Definition op_ok (g : mineral_glob (T:=R)) (o : nop) : Prop :=
  match o with
  | OpFert d => 0 <= d
  | OpMineral z l => 0 < ml_tempbo l \/ ml_wmin l < mg_wred g
  | OpReset => True
  end.

Definition totals_inv (g : mineral_glob (T:=R)) : Prop := 0 <= mg_ums g <= mg_dsumm g.

Lemma nstep_inv g o : totals_inv g -> op_ok g o -> totals_inv (nstep g o).
Proof.
  unfold totals_inv. intros Hi Ho. destruct o as [d|z l|]; cbn [nstep op_ok] in *.
  - cbn. lra.
  - destruct (Rlt_le_dec 0 (ml_tempbo l)) as [Hw|Hc].
    + pose proof (ums_bounded_lemma z l g Hi Hw) as H.
      pose proof (mineral_layer_books z l g) as HB.
      destruct (mineral_layer z l g) as [o g']. cbn [snd]. destruct HB as (_ & _ & _ & _ & _ & _ & Hd & _). lra.
    + destruct Ho as [Hw|H1]; [lra|].
      pose proof (ums_bounded_frozen z l g Hi Hc H1) as H.
      destruct (mineral_layer z l g) as [o g']. cbn [snd]. destruct H as [H Hd]. lra.
  - cbn. lra.
Qed.

(* WRED and PORGES[0] are not changed by any of the operations: the parameter hypothesis of later steps can be stated
   about the run's constants *)
Lemma nstep_params g o : mg_wred (nstep g o) = mg_wred g /\ mg_porges0 (nstep g o) = mg_porges0 g.
Proof.
  destruct o as [d|z l|]; cbn [nstep]; try (cbn; split; reflexivity).
  unfold mineral_layer. destruct (gtb (ml_tempbo l) zero); cbn; split; reflexivity.
Qed.

Fixpoint ops_ok (g : mineral_glob (T:=R)) (ops : list nop) : Prop :=
  match ops with [] => True | o :: r => op_ok g o /\ ops_ok (nstep g o) r end.

Lemma run_totals_inv ops : forall g, totals_inv g -> ops_ok g ops -> totals_inv (fold_left nstep ops g).
Proof.
  induction ops as [|o r IH]; intros g Hi Ho; cbn [fold_left]; [exact Hi|].
  destruct Ho as [H1 H2]. apply IH; [apply nstep_inv; assumption | exact H2].
Qed.

(* ---- the ammonium pair (NH4Sum, NH4UMS): same recurrence with the same factor ---- *)
Definition swap_nh4 (g : mineral_glob (T:=R)) : mineral_glob (T:=R) :=
  {| mg_wred := mg_wred g; mg_porges0 := mg_porges0 g; mg_dsumm := mg_nh4sum g; mg_ums := mg_nh4ums g;
     mg_nh4sum := mg_dsumm g; mg_nh4ums := mg_ums g; mg_n2onitsum := mg_n2onitsum g;
     mg_n2onitdaily := mg_n2onitdaily g; mg_minsum := mg_minsum g |}.

Lemma mineral_layer_swap z (l : mineral_layer_in (T:=R)) (g : mineral_glob (T:=R)) :
  mg_nh4ums (snd (mineral_layer z l g)) = mg_ums (snd (mineral_layer z l (swap_nh4 g))) /\
  mg_nh4sum (snd (mineral_layer z l g)) = mg_dsumm (snd (mineral_layer z l (swap_nh4 g))).
Proof.
  unfold mineral_layer. destruct (gtb (ml_tempbo l) zero); cbn [snd mg_nh4ums mg_nh4sum mg_ums mg_dsumm swap_nh4 mg_wred mg_porges0];
    split; reflexivity.
Qed.

Definition nh4_inv (g : mineral_glob (T:=R)) : Prop := 0 <= mg_nh4ums g <= mg_nh4sum g.

Inductive nop4 : Type :=
| Op4Fert (ndir nh4 : R)                       (* a fertiliser event: mineral part, ammonium part (nitro.go:58-63) *)
| Op4Mineral (z : nat) (l : mineral_layer_in (T:=R))
| Op4Reset.                                    (* measurement day (run.go:485-486): DSUMM, UMS := 0; the ammonium pair is left alone *)

Definition set_nh4sum (g : mineral_glob (T:=R)) (v : R) : mineral_glob (T:=R) :=
  {| mg_wred := mg_wred g; mg_porges0 := mg_porges0 g; mg_dsumm := mg_dsumm g; mg_ums := mg_ums g;
     mg_nh4sum := v; mg_nh4ums := mg_nh4ums g; mg_n2onitsum := mg_n2onitsum g;
     mg_n2onitdaily := mg_n2onitdaily g; mg_minsum := mg_minsum g |}.

Definition nstep4 (g : mineral_glob (T:=R)) (o : nop4) : mineral_glob (T:=R) :=
  match o with
  | Op4Fert d a => set_nh4sum (nstep g (OpFert d)) (mg_nh4sum g + a)
  | Op4Mineral z l => nstep g (OpMineral z l)
  | Op4Reset => nstep g OpReset
  end.

Definition op4_ok (g : mineral_glob (T:=R)) (o : nop4) : Prop :=
  match o with
  | Op4Fert d a => 0 <= d /\ 0 <= a
  | Op4Mineral z l => op_ok g (OpMineral z l)
  | Op4Reset => True
  end.

Lemma nstep4_inv g o : totals_inv g /\ nh4_inv g -> op4_ok g o -> totals_inv (nstep4 g o) /\ nh4_inv (nstep4 g o).
Proof.
  intros [Hi Hn] Ho. destruct o as [d a|z l|]; cbn [nstep4 op4_ok] in *.
  - destruct Ho as [Hd Ha]. split.
    + pose proof (nstep_inv g (OpFert d) Hi Hd) as H. unfold totals_inv in *. cbn in *. lra.
    + unfold nh4_inv in *. cbn. lra.
  - split; [apply nstep_inv; assumption|].
    unfold nh4_inv. cbn [nstep]. destruct (mineral_layer_swap z l g) as [E1 E2]. rewrite E1, E2.
    assert (Hs : totals_inv (swap_nh4 g)) by exact Hn.
    assert (Hos : op_ok (swap_nh4 g) (OpMineral z l)) by exact Ho.
    exact (nstep_inv (swap_nh4 g) (OpMineral z l) Hs Hos).
  - split; [apply nstep_inv; [assumption | exact I]|]. unfold nh4_inv in *. cbn. exact Hn.
Qed.

Lemma nstep4_params g o : mg_wred (nstep4 g o) = mg_wred g /\ mg_porges0 (nstep4 g o) = mg_porges0 g.
Proof.
  destruct o as [d a|z l|]; cbn [nstep4].
  - cbn. split; reflexivity.
  - apply nstep_params.
  - apply nstep_params.
Qed.

Fixpoint ops4_ok (g : mineral_glob (T:=R)) (ops : list nop4) : Prop :=
  match ops with [] => True | o :: r => op4_ok g o /\ ops4_ok (nstep4 g o) r end.

Lemma run4_inv ops : forall g, totals_inv g /\ nh4_inv g -> ops4_ok g ops ->
  totals_inv (fold_left nstep4 ops g) /\ nh4_inv (fold_left nstep4 ops g).
Proof.
  induction ops as [|o r IH]; intros g Hi Ho; cbn [fold_left]; [exact Hi|].
  destruct Ho as [H1 H2]. apply IH; [apply nstep4_inv; assumption | exact H2].
Qed.

(* why the measurement day must reset both members of the ammonium pair or neither: a reset of NH4Sum alone (seeded
   change C07-18) leaves the nitrified amount above the applied amount *)
Lemma reset_nh4sum_only_refuted :
  exists g : mineral_glob (T:=R), totals_inv g /\ nh4_inv g /\ ~ nh4_inv (set_nh4sum g 0).
Proof.
  exists {| mg_wred := 2/10; mg_porges0 := 4/10; mg_dsumm := 80; mg_ums := 30; mg_nh4sum := 40; mg_nh4ums := 36;
            mg_n2onitsum := 0; mg_n2onitdaily := 0; mg_minsum := 0 |}.
  unfold totals_inv, nh4_inv. cbn. split; [lra|]. split; [lra|]. intros [_ H]. lra.
Qed.

(* ---- the N2O counters ---- *)
Lemma dec_4_1 : @dec R RNum 4 1 = 4 / 10. Proof. unfold dec; cbn; lra. Qed.
Lemma dec_104_2 : @dec R RNum 104 2 = 104 / 100. Proof. unfold dec; cbn; lra. Qed.
Lemma dec_16_4 : @dec R RNum 16 4 = 16 / 10000. Proof. unfold dec; cbn; lra. Qed.
Lemma dec_1_2 : @dec R RNum 1 2 = 1 / 100. Proof. unfold dec; cbn; lra. Qed.

(* the N2O share of nitrification is positive for every water-filled fraction of the pore space in [0,1] *)
Lemma fn2onit_pos (wg porges : R) : 0 <= wg <= porges -> 0 < porges -> 0 < fn2onit wg porges.
Proof.
  intros Hw Hp. unfold fn2onit. rsimp. rewrite dec_4_1, dec_104_2, dec_16_4.
  set (x := wg / porges).
  assert (Hx : 0 <= x <= 1).
  { unfold x. split; [unfold Rdiv; apply Rmult_le_pos; [lra | left; apply Rinv_0_lt_compat; lra]|].
    apply (Rmult_le_reg_r porges); [lra|]. unfold Rdiv. rewrite Rmult_assoc, Rinv_l by lra. lra. }
  assert (Hn : 4 / 10 * x - 104 / 100 < 0) by lra.
  assert (Hd : x - 104 / 100 < 0) by lra.
  assert (Hq : 0 < (4 / 10 * x - 104 / 100) / (x - 104 / 100)).
  { replace ((4 / 10 * x - 104 / 100) / (x - 104 / 100)) with ((104 / 100 - 4 / 10 * x) / (104 / 100 - x)) by (field; lra).
    apply Rdiv_lt_0_compat; lra. }
  apply Rmult_lt_0_compat; lra.
Qed.

(* one mineralisation call: the N2O counter does not decrease, and the day's N2O amount is >= 0, while the ammonium pair is in order and the
   layer's water content does not exceed its pore volume *)
Lemma mineral_layer_n2o z (l : mineral_layer_in (T:=R)) (g : mineral_glob (T:=R)) :
  nh4_inv g -> 0 <= ml_wg0 l <= ml_porges l -> 0 < ml_porges l ->
  let g' := snd (mineral_layer z l g) in
  mg_n2onitsum g <= mg_n2onitsum g' /\ 0 <= mg_n2onitdaily g'.
Proof.
  intros Hn Hw Hp. pose proof (fn2onit_pos (ml_wg0 l) (ml_porges l) Hw Hp) as Hf.
  unfold nh4_inv in Hn. cbv zeta. unfold mineral_layer.
  destruct (gtb (ml_tempbo l) zero); cbn [snd mg_n2onitsum mg_n2onitdaily].
  - (* warm *)
    match goal with |- context [clamp01 ?m] => pose proof (clamp01_range m) as Hm; set (mired := clamp01 m) in * end.
    set (f := fn2onit (ml_wg0 l) (ml_porges l)) in *.
    rsimp.
    set (dt0 := 4000000000 * ml_e0 l * ml_naos l * mired).
    set (dm0 := 5600000000000 * ml_e1 l * ml_nfos l * mired).
    assert (Hdt : 0 <= (if RI.ltb dt0 0 then 0 else dt0)) by (destruct (RI.ltb_spec dt0 0); lra).
    assert (Hdm : 0 <= (if RI.ltb dm0 0 then 0 else dm0)) by (destruct (RI.ltb_spec dm0 0); lra).
    assert (Hnh : 0 <= (if Nat.eqb z 1 then dec 4 1 * mired * (mg_nh4sum g - mg_nh4ums g) else 0)).
    { destruct (Nat.eqb z 1); [|lra]. rewrite dec_4_1. apply Rmult_le_pos; [apply Rmult_le_pos; lra | lra]. }
    match goal with |- _ <= _ + ?n /\ 0 <= ?n => assert (0 <= n) by (apply Rmult_le_pos; [lra | unfold f in *; lra]) end.
    split; lra.
  - (* frozen *)
    set (f := fn2onit (ml_wg0 l) (ml_porges l)) in *.
    match goal with |- context [if Nat.eqb z 1 then (if ltb ?m zero then zero else ?m) else zero] =>
      set (mired := if Nat.eqb z 1 then (if ltb m zero then zero else m) else zero) end.
    assert (Hm : 0 <= mired).
    { unfold mired. destruct (Nat.eqb z 1); rsimp; [|lra].
      match goal with |- 0 <= (if RI.ltb ?m 0 then 0 else ?m) => destruct (RI.ltb_spec m 0); lra end. }
    rsimp.
    assert (Hnh : 0 <= (if Nat.eqb z 1 then dec 4 1 * mired * (mg_nh4sum g - mg_nh4ums g) else 0)).
    { destruct (Nat.eqb z 1); [|lra]. rewrite dec_4_1. apply Rmult_le_pos; [apply Rmult_le_pos; lra | lra]. }
    match goal with |- _ <= _ + ?n /\ 0 <= ?n => assert (0 <= n) by (apply Rmult_le_pos; [lra | unfold f in *; lra]) end.
    split; lra.
Qed.

Definition op4_wet_ok (o : nop4) : Prop :=
  match o with Op4Mineral z l => 0 <= ml_wg0 l <= ml_porges l /\ 0 < ml_porges l | _ => True end.

Lemma nstep4_n2o g o : nh4_inv g -> op4_wet_ok o -> mg_n2onitsum g <= mg_n2onitsum (nstep4 g o).
Proof.
  intros Hn Hw. destruct o as [d a|z l|]; cbn [nstep4 nstep op4_wet_ok] in *.
  - cbn. lra.
  - destruct Hw as [Hw Hp]. exact (proj1 (mineral_layer_n2o z l g Hn Hw Hp)).
  - cbn. lra.
Qed.

(* over a whole run: the cumulative N2O counter never decreases (so it stays >= 0 from a start at 0) *)
Lemma run4_n2o ops : forall g, totals_inv g /\ nh4_inv g -> ops4_ok g ops -> Forall op4_wet_ok ops ->
  mg_n2onitsum g <= mg_n2onitsum (fold_left nstep4 ops g).
Proof.
  induction ops as [|o r IH]; intros g Hi Ho Hw; cbn [fold_left]; [lra|].
  destruct Ho as [H1 H2]. inversion Hw as [|? ? Hw1 Hw2]; subst.
  pose proof (nstep4_n2o g o (proj2 Hi) Hw1) as Hs.
  pose proof (IH (nstep4 g o) (nstep4_inv g o Hi H1) H2 Hw2) as Hr. lra.
Qed.
