(* PredDateModel.v — executable model of the year extraction of the fertiliser-prediction date in
   hermes/longday.go:38-57 (LangTagConverter): the prediction date is written in the project's date
   format; its year, counted from 1900, shifts the day-length dates P1, P2.  The year is the last
   field in all four formats; the two-digit formats apply the century split.  No proofs here. *)
From Coq Require Import ZArith List Bool Ascii String.
From Hermes Require Import DateModel.
Import ListNotations.
Local Open Scope Z_scope.

(* progja; None = log.Fatal (extractDate error) *)
Definition langtag_year (cent : Z) (f : datefmt) (s : lstr) : option Z :=
  if is_short f
  then match extract_date s true with
       | Some (_, _, yy) => Some (if yy <? cent then 100 + yy else yy)
       | None => None
       end
  else match extract_date s false with
       | Some (_, _, y) => Some (y - 1900)
       | None => None
       end.

(* the year DateConverter works with (helper.go DateConverter: YR) for the same text *)
Definition datum_year (cent : Z) (f : datefmt) (s : lstr) : option Z :=
  let s := trim s in
  if is_short f
  then match extract_date s true with
       | Some (_, _, yy) => Some (if yy <? cent then yy + 100 else yy)
       | None => None
       end
  else match extract_date s false with
       | Some (_, _, y) => if y <? 1901 then None else Some (y - 1900)
       | None => None
       end.
