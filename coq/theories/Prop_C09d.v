(* Prop_C09d.v — property C09, fourth layer: the HEAD of hermes.radia (crop.go:776-914) — light-use efficiency, the
   light-saturated assimilation rate AMAX under the three CO2 methods and both temperature-response types, and the light
   response that yields the gross assimilation of a clear (DGAC) and an overcast (DGAO) day — stated about RadiaModel, which
   the correspondence check compares bit for bit (results AND the arguments handed to log / exp) with the locals recorded by a
   verbatim shadow of radia() that is itself compared with the real kernel on every traced crop day.  These are the two
   quantities C09_assimilation_nonneg_partial (Prop_C09b) assumes to be >= 0.  Only statements here. *)
From Coq Require Import ZArith Reals List Bool.
From Hermes Require Import Num RUtil CropModel CropProofs CropNModel RadiaModel RadiaProofs.
Import ListNotations.
Local Open Scope R_scope.

(* AMAX never falls below its floor 0.1 — for every CO2 method, temperature type, temperature, CO2 concentration and every value
   of the oracles (so every division by AMAX in the light response has a positive divisor); the light-use efficiency is 0.5 for
   methods 2 and 3 and lies in [0, 0.5] for method 1 while the CO2 compensation point is below the CO2 concentration *)
Theorem C09_amax_floor_and_efficiency : forall x : rd_in (T:=R),
  1 / 10 <= snd (rd_eff_amax x) /\
  ((rd_meth x =? 1)%Z = false -> fst (rd_eff_amax x) = 5 / 10) /\
  ((rd_meth x =? 1)%Z = true -> 0 < rd_p2 x -> 175 / 10 * rd_p2 x <= rd_co2 x -> 0 <= fst (rd_eff_amax x) <= 5 / 10).
Proof. exact (fun x => conj (rd_amax_floor x) (conj (rd_eff_other x) (rd_eff_meth1 x))). Qed.

(* light response, oracle form: on a day with daylight (DL > 0, DLE >= 0), clear-day radiation DRC >= 0, efficiency >= 0, the sun
   above the horizon at noon (0 < sin of the elevation <= 1), LAI >= 0, and oracle values in the ranges log(1+u) >= 0, exp(-v) in (0,1]:
   the arguments of the saturation exponentials are <= 0, and DGAC, DGAO >= 0 *)
Theorem C09_light_response_nonneg : forall x : rd_in (T:=R),
  0 <= rd_dle x -> 0 < rd_dl x -> 0 <= rd_drc x -> 0 <= fst (rd_eff_amax x) ->
  0 < rd_sslae x <= 1 -> 0 <= rd_lai x ->
  0 <= rd_logx x -> 0 <= rd_logy x -> 0 < rd_elai x <= 1 ->
  ro_ecarg (rd_light x) <= 0 /\ ro_eoarg (rd_light x) <= 0 /\
  (0 < rd_ec x <= 1 -> 0 < rd_eo x <= 1 -> 0 <= ro_dgac (rd_light x) /\ 0 <= ro_dgao (rd_light x)).
Proof. exact rd_light_facts. Qed.

(* ... and with the TRUE natural logarithm and exponential at the arguments the model computes (the arguments of the logarithms
   are >= 1 from the geometry alone): DGAC, DGAO >= 0 with no assumption about oracle values *)
Theorem C09_light_response_true_functions : forall x : rd_in (T:=R),
  0 <= rd_dle x -> 0 < rd_dl x -> 0 <= rd_drc x -> 0 <= fst (rd_eff_amax x) ->
  0 < rd_sslae x <= 1 -> 0 <= rd_lai x ->
  rd_logx x = ln (ro_xarg (rd_light x)) -> rd_logy x = ln (ro_yarg (rd_light x)) ->
  rd_elai x = exp (- (8 / 10) * rd_lai x) ->
  rd_ec x = exp (ro_ecarg (rd_light x)) -> rd_eo x = exp (ro_eoarg (rd_light x)) ->
  0 <= ro_dgac (rd_light x) /\ 0 <= ro_dgao (rd_light x).
Proof. exact rd_light_true. Qed.

(* radia() as a whole, head and tail composed, with the TRUE logarithm and exponential: on a day with daylight, the sun above the
   horizon at noon, efficiency, radiation, LAI, the transpiration ratio and the potential maintenance >= 0 and - when there is no
   radiation record - a sunshine duration >= 0 (a leftover missing-value marker refutes it: Prop_C09b), the kernel returns
   0 <= MAINT <= GPHOT: gross assimilation is never negative, maintenance never exceeds it (net assimilation >= 0), and
   GTW = GPHOT + ASPOO >= 0 for every assimilate pool >= 0 - the hypothesis the organ and pool theorems of Prop_C09 start from *)
Theorem C09_radia_nonneg_true_functions : forall (x : rd_in (T:=R)) (trrel vswell maint_pot : R) (cold : bool),
  0 <= rd_dle x -> 0 < rd_dl x -> 0 <= rd_drc x -> 0 <= fst (rd_eff_amax x) ->
  0 < rd_sslae x <= 1 -> 0 <= rd_lai x ->
  rd_logx x = ln (ro_xarg (rd_light x)) -> rd_logy x = ln (ro_yarg (rd_light x)) ->
  rd_elai x = exp (- (8 / 10) * rd_lai x) ->
  rd_ec x = exp (ro_ecarg (rd_light x)) -> rd_eo x = exp (ro_eoarg (rd_light x)) ->
  0 <= trrel -> 0 <= maint_pot -> (rd_rad x = 0 -> 0 <= rd_sund x) ->
  let '(gphot, maint) := radia_of x trrel vswell maint_pot cold in
  0 <= maint <= gphot /\ (forall aspoo, 0 <= aspoo -> 0 <= gphot + aspoo).
Proof. exact radia_nonneg_true. Qed.

(* maintenance (crop.go:955-964): the organs' shares MANT of the maintenance respiration are >= 0 and sum to exactly 1 whenever the
   maintenance sum is positive (organ masses and maintenance rates >= 0) - so the maintenance terms MAINT*MANT[i]*0.7 that the organ
   fragment of Prop_C09 subtracts add up to 0.7*MAINT, no more *)
Theorem C09_maintenance_shares : forall worg mairt : list R,
  Forall (fun p => 0 <= fst p * snd p) (combine worg mairt) -> 0 < maint_sum worg mairt ->
  Forall (fun m => 0 <= m <= 1) (mant_of worg mairt) /\ Rsum (mant_of worg mairt) = 1.
Proof. exact mant_shares. Qed.

(* non-vacuity: a May day of a C3 crop under CO2 method 2 meets every hypothesis of the oracle form *)
Example C09d_nonvacuous :
  let x := radia_example in
  0 <= rd_dle x /\ 0 < rd_dl x /\ 0 <= rd_drc x /\ 0 <= fst (rd_eff_amax x) /\ 0 < rd_sslae x <= 1 /\ 0 <= rd_lai x /\
  0 <= rd_logx x /\ 0 <= rd_logy x /\ 0 < rd_elai x <= 1 /\ 0 < rd_ec x <= 1 /\ 0 < rd_eo x <= 1.
Proof. exact radia_nonvacuous. Qed.

Print Assumptions C09_amax_floor_and_efficiency.
Print Assumptions C09_light_response_nonneg.
Print Assumptions C09_light_response_true_functions.
Print Assumptions C09_radia_nonneg_true_functions.
Print Assumptions C09_maintenance_shares.
