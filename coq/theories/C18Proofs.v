(* C18Proofs.v — text-level lemmas (the edit of the classic file reads back as the override value)
   and the non-vacuity witness of Prop_C18. *)
From Coq Require Import ZArith List Bool Ascii String Floats Lia.
From Hermes Require Import Num DateModel CropParamModel CropParamProofs OverrideModel OverrideProofs CropSamples C13Corr.
Import ListNotations.
Local Open Scope Z_scope.

Lemma ltrim_blanks n t : ltrim (blanks n ++ t) = ltrim t.
Proof. induction n as [|n IH]; cbn; [reflexivity|exact IH]. Qed.

Lemma trim_blanks n t : trim (blanks n ++ t) = trim t.
Proof. unfold trim. now rewrite ltrim_blanks. Qed.

Section Text.
  Context {T : Type} {NT : Num T}.

  Lemma val_as_float_blanks n t : val_as_float (T:=T) (blanks n ++ t) = val_as_float t.
  Proof. unfold val_as_float. now rewrite trim_blanks. Qed.

  Lemma edit_at65_reads_back (l text : lstr) :
    (65 <= List.length l)%nat -> f65 (T:=T) (edit_at65 l text) = val_as_float text.
  Proof.
    intros H. unfold f65, edit_at65, from.
    assert (L : List.length (firstn 65 l) = 65%nat) by (rewrite firstn_length; lia).
    rewrite app_length, L.
    replace (Nat.leb 65 (65 + List.length (blanks 3 ++ text))) with true by (symmetry; apply Nat.leb_le; lia).
    rewrite <- L at 1. rewrite skipn_app, skipn_all, Nat.sub_diag. cbn [skipn app].
    apply (val_as_float_blanks 3).
  Qed.
End Text.

(* ------------------------------------------------------------------ *)
(* the edited classic file parses to the edited record: column-65 fields (all base parameters but the
   yield fraction, all per-stage parameters), one override entry *)
Lemma ln_set_line lines k l m :
  ln (set_line lines k l) m = if Nat.eqb m k then option_map (fun _ => l) (ln lines m) else ln lines m.
Proof.
  unfold ln, set_line. rewrite nth_error_mapi. destruct (nth_error lines m), (Nat.eqb m k); reflexivity.
Qed.

Section Parse.
  Context {T : Type} {NT : Num T}.

  Definition single_base (p : pname) (v : T) : cropow T := {| ow_base := [(p, v)]; ow_stage := []; ow_part := [] |}.
  Definition single_stage (p : pname) (i : nat) (v : T) : cropow T :=
    {| ow_base := []; ow_stage := [(p, Z.of_nat i, v)]; ow_part := [] |}.

  Lemma f65_len (l : lstr) (v : T) : f65 l = Some v -> (65 <= List.length l)%nat.
  Proof.
    unfold f65, from. destruct (Nat.leb 65 (List.length l)) eqn:E; [|discriminate]. intros _. now apply Nat.leb_le.
  Qed.

  Ltac eqbs :=
    repeat match goal with
           | |- context [Nat.eqb ?a ?b] =>
               first [ replace (Nat.eqb a b) with false by (symmetry; apply Nat.eqb_neq; lia)
                     | replace (Nat.eqb a b) with true by (symmetry; apply Nat.eqb_eq; lia) ]
           end.

  Lemma read_stage_untouched b nk lines k l i :
    (forall e, (e <= 12)%nat -> (19 + 13 * i + e)%nat <> k) ->
    read_stage (T:=T) b nk (set_line lines k l) i = read_stage b nk lines i.
  Proof.
    intros H. unfold read_stage. rewrite !ln_set_line.
    pose proof (H 0%nat ltac:(lia)). pose proof (H 1%nat ltac:(lia)). pose proof (H 2%nat ltac:(lia)).
    pose proof (H 3%nat ltac:(lia)). pose proof (H 4%nat ltac:(lia)). pose proof (H 5%nat ltac:(lia)).
    pose proof (H 6%nat ltac:(lia)). pose proof (H 7%nat ltac:(lia)). pose proof (H 8%nat ltac:(lia)).
    pose proof (H 9%nat ltac:(lia)). pose proof (H 10%nat ltac:(lia)). pose proof (H 11%nat ltac:(lia)).
    pose proof (H 12%nat ltac:(lia)).
    eqbs. reflexivity.
  Qed.

  Lemma read_stages_untouched b nk lines k l n : forall i,
    (forall j e, (i <= j < i + n)%nat -> (e <= 12)%nat -> (19 + 13 * j + e)%nat <> k) ->
    read_stages (T:=T) b nk (set_line lines k l) n i = read_stages b nk lines n i.
  Proof.
    induction n as [|n IH]; intros i H; cbn [read_stages]; [reflexivity|].
    rewrite read_stage_untouched by (intros e He; apply H; lia).
    rewrite IH by (intros j e Hj He; apply H; lia). reflexivity.
  Qed.

  Lemma edit_stage_nop (o : cropow T) i (st : stage_rec T) :
    (forall p, look_stage o p (Z.of_nat i + 1) = None) -> (forall p j, look_part o p (Z.of_nat i + 1) j = None) ->
    edit_stage o i st = st.
  Proof.
    intros Hs Hp. destruct st as [x0 x1 x2 x3 x4 x5 x6 x7 x8 x9 x10 x11 x12]. unfold edit_stage. cbn [st_bbch st_tsum st_bas st_vschwell st_dayl st_dlbas st_dryswell
      st_lukrit st_laifkt st_wgmax st_pro st_dead st_kc]. rewrite !Hs. cbn [orelse]. f_equal.
    - apply mapi_id. intros j x _. now rewrite Hp.
    - apply mapi_id. intros j x _. now rewrite Hp.
  Qed.

  Lemma mapi_edit_nop (o : cropow T) (sts : list (stage_rec T)) :
    ow_stage o = [] -> ow_part o = [] -> mapi (edit_stage o) sts = sts.
  Proof.
    intros Hs Hp. apply mapi_id. intros i st _. apply edit_stage_nop.
    - intros p. unfold look_stage. now rewrite Hs.
    - intros p j. unfold look_part. now rewrite Hp.
  Qed.

  Ltac inv_bind H :=
    repeat match type of H with
           | match ?e with Some _ => _ | None => None end = Some _ =>
               let E := fresh "E" in destruct e eqn:E; [|discriminate H]
           | (if ?b then None else _) = Some _ =>
               let E := fresh "C" in destruct b eqn:E; [discriminate H|]
           | (let '(_, _) := ?e in _) = Some _ => destruct e
           end.
  Ltac rew_all := repeat match goal with E : ?x = Some _ |- context [?x] => rewrite E end.

  (* base parameters written at column 65 *)
  Theorem edit_base65_parses : forall p k lines (r : crop_rec T) text v l,
    base_line p = Some k -> p <> YIFAK_ ->
    convert_core lines = Some r -> ln lines k = Some l -> val_as_float text = Some v ->
    convert_core (set_line lines k (edit_at65 l text)) = Some (edit_rec (single_base p v) r).
  Proof.
    intros p k lines r text v l Hk Hy H Hl Hv.
    unfold convert_core in H. inv_bind H. inversion H; subst r; clear H.
    unfold convert_core.
    rewrite !ln_set_line.
    destruct p; cbn in Hk; try discriminate; try congruence; inversion Hk; subst k; cbn [Nat.eqb];
      match goal with E : ln lines ?k = Some ?x, Hl : ln lines ?k = Some l |- _ =>
        first [constr_eq x l; fail 1 | rewrite Hl in E; inversion E; subst x] end;
      repeat (progress (rew_all; cbn [option_map]; cbv beta iota));
      rewrite ?edit_at65_reads_back by (eapply f65_len; eassumption);
      repeat (progress (rew_all; cbv beta iota));
      repeat match goal with C : ?b = false |- context [?b] => rewrite C end;
      (rewrite read_stages_untouched by (intros j e _ _; lia));
      repeat (progress (rew_all; cbv beta iota));
      unfold edit_rec, single_base; cbn [look_base ow_base find pname_eqb fst snd option_map orelse
        r_maxamax r_temptyp r_mintmp r_wumaxpf r_veloc r_ngefkt r_rga r_rgb r_suborgan r_ago r_yorgan r_yifak
        r_initbiom r_initroot r_nrkom r_nnames r_dauerkult r_legum r_worg r_mairt r_kcini r_nrentw r_stages];
      rewrite mapi_edit_nop by reflexivity; reflexivity.
  Qed.

  (* per-stage parameters (all written at column 65 of their own line) *)
  Lemma look_single_stage p i v p' k :
    look_stage (single_stage p i v) p' k = if pname_eqb p p' && (Z.of_nat i =? k) then Some v else None.
  Proof. unfold look_stage, single_stage. cbn [ow_stage find fst snd]. destruct (pname_eqb p p' && (Z.of_nat i =? k)); reflexivity. Qed.

  Lemma read_stage_edited b nk lines p d i0 l text v i st :
    stage_off p = Some d -> ln lines (19 + 13 * i0 + d) = Some l -> val_as_float text = Some v ->
    read_stage (T:=T) b nk lines i = Some st ->
    read_stage b nk (set_line lines (19 + 13 * i0 + d) (edit_at65 l text)) i = Some (edit_stage (single_stage p (S i0) v) i st).
  Proof.
    intros Hd Hl Hv H.
    assert (Dd : (1 <= d <= 12)%nat /\ d <> 10%nat /\ d <> 11%nat) by (destruct p; cbn in Hd; try discriminate; inversion Hd; lia).
    destruct (Nat.eq_dec i i0) as [->|Hne].
    - (* the edited stage *)
      unfold read_stage in H. inv_bind H. inversion H; subst st; clear H.
      unfold read_stage. rewrite !ln_set_line.
      destruct p; cbn in Hd; try discriminate; inversion Hd; subst d;
        eqbs;
        match goal with E : ln lines ?k = Some ?x, Hl : ln lines ?k' = Some l |- _ =>
          first [constr_eq x l; fail 1 | replace k' with k in Hl by lia; rewrite Hl in E; inversion E; subst x] end;
        repeat (progress (rew_all; cbn [option_map]; cbv beta iota));
        rewrite ?edit_at65_reads_back by (eapply f65_len; eassumption);
        repeat (progress (rew_all; cbv beta iota));
        unfold edit_stage; cbn [st_bbch st_tsum st_bas st_vschwell st_dayl st_dlbas st_dryswell st_lukrit st_laifkt
                                 st_wgmax st_pro st_dead st_kc];
        rewrite !look_single_stage; cbn [pname_eqb andb];
        replace (Z.of_nat (S i0) =? Z.of_nat i0 + 1) with true by (symmetry; apply Z.eqb_eq; lia);
        cbn [orelse]; f_equal; f_equal; symmetry; apply mapi_id; intros; reflexivity.
    - (* any other stage *)
      rewrite read_stage_untouched by (intros e He; nia). rewrite H. f_equal. symmetry. apply edit_stage_nop.
      + intros p'. rewrite look_single_stage.
        replace (Z.of_nat (S i0) =? Z.of_nat i + 1) with false by (symmetry; apply Z.eqb_neq; lia).
        now rewrite andb_false_r.
      + intros p' j. reflexivity.
  Qed.

  Lemma read_stages_edited b nk lines p d i0 l text v n : forall i sts,
    stage_off p = Some d -> ln lines (19 + 13 * i0 + d) = Some l -> val_as_float text = Some v ->
    read_stages (T:=T) b nk lines n i = Some sts ->
    read_stages b nk (set_line lines (19 + 13 * i0 + d) (edit_at65 l text)) n i =
      Some (mapi_aux (edit_stage (single_stage p (S i0) v)) i sts).
  Proof.
    induction n as [|n IH]; intros i sts Hd Hl Hv H; cbn [read_stages] in *.
    - inversion H. reflexivity.
    - destruct (read_stage b nk lines i) as [st|] eqn:E1; [|discriminate].
      destruct (read_stages b nk lines n (S i)) as [r|] eqn:E2; [|discriminate].
      inversion H; subst sts.
      rewrite (read_stage_edited b nk lines p d i0 l text v i st Hd Hl Hv E1).
      rewrite (IH (S i) r Hd Hl Hv E2). reflexivity.
  Qed.

  Theorem edit_stage65_parses : forall p d i0 lines (r : crop_rec T) text v l,
    stage_off p = Some d ->
    convert_core lines = Some r -> ln lines (19 + 13 * i0 + d) = Some l -> val_as_float text = Some v ->
    convert_core (set_line lines (19 + 13 * i0 + d) (edit_at65 l text)) = Some (edit_rec (single_stage p (S i0) v) r).
  Proof.
    intros p d i0 lines r text v l Hd H Hl Hv.
    unfold convert_core in H. inv_bind H. inversion H; subst r; clear H.
    unfold convert_core. rewrite !ln_set_line. eqbs.
    repeat (progress (rew_all; cbv beta iota)).
    repeat match goal with C : ?b = false |- context [?b] => rewrite C end.
    match goal with E : read_stages false _ lines _ 0 = Some _ |- _ =>
      rewrite (read_stages_edited _ _ _ p d i0 l text v _ _ _ Hd Hl Hv E) end.
    unfold edit_rec, single_stage at 1 2 3 4 5 6 7. cbn [look_base ow_base find option_map orelse
        r_maxamax r_temptyp r_mintmp r_wumaxpf r_veloc r_ngefkt r_rga r_rgb r_suborgan r_ago r_yorgan r_yifak
        r_initbiom r_initroot r_nrkom r_nnames r_dauerkult r_legum r_worg r_mairt r_kcini r_nrentw r_stages].
    reflexivity.
  Qed.

  (* ---- end to end on the classic file: one override entry, its decimal text written into the file ---- *)
  Lemma bbch_ok_set_line lines k l n :
    (forall i, (19 + 13 * i)%nat <> k) -> bbch_ok (T:=T) lines n -> bbch_ok (T:=T) (set_line lines k l) n.
  Proof.
    intros Hk Hb i h Hi Hh. rewrite ln_set_line in Hh.
    replace (Nat.eqb (19 + 13 * i) k) with false in Hh by (symmetry; apply Nat.eqb_neq; apply Hk).
    exact (Hb i h Hi Hh).
  Qed.

  Lemma stale_ok_set_line lines k l s0 : k <> 8%nat -> stale_ok (T:=T) lines s0 -> stale_ok (set_line lines k l) s0.
  Proof.
    intros Hk Hs l04 ng ta tb torg H1 H2 H3. rewrite ln_set_line in H1.
    replace (Nat.eqb 8 k) with false in H1 by (symmetry; apply Nat.eqb_neq; lia).
    exact (Hs l04 ng ta tb torg H1 H2 H3).
  Qed.

  Theorem classic_stage_override_commutes : forall cont lines lines' (r : crop_rec T) s0 s p d i0 text v,
    convert_core lines = Some r -> r_nrkom r <= 5 -> r_nrentw r <= 10 -> ago_ok (r_nrkom r) (r_ago r) = true ->
    bbch_ok lines (ztn (r_nrentw r)) -> stale_ok lines s0 ->
    stage_off p = Some d -> edit_lines lines p (S i0) 0 text = Some lines' -> val_as_float text = Some v ->
    state_of_classic cont lines s0 = Some s ->
    valid (single_stage p (S i0) v) (NRKOM s) (NRENTW s) = true ->
    state_of_classic cont lines' s0 = Some (apply cont (single_stage p (S i0) v) s).
  Proof.
    intros cont lines lines' r s0 s p d i0 text v P Hk He Ha Hb Hs Hd Hed Hv L V.
    assert (Dd : (1 <= d <= 12)%nat) by (destruct p; cbn in Hd; try discriminate; inversion Hd; lia).
    unfold edit_lines in Hed. rewrite Hd in Hed.
    replace (base_line p) with (@None nat) in Hed by (destruct p; cbn in Hd; try discriminate; reflexivity).
    replace (19 + 13 * (S i0 - 1) + d)%nat with (19 + 13 * i0 + d)%nat in Hed by lia.
    destruct (nth_error lines (19 + 13 * i0 + d)) as [l|] eqn:El; [|discriminate]. inversion Hed; subst lines'.
    eapply (override_commutes_classic_lemma cont lines _ r s0 s); eauto.
    - eapply edit_stage65_parses; eauto.
    - apply bbch_ok_set_line; [intros i; lia|assumption].
    - apply stale_ok_set_line; [lia|assumption].
  Qed.

  Theorem classic_base_override_commutes : forall cont lines lines' (r : crop_rec T) s0 s p text v,
    convert_core lines = Some r -> r_nrkom r <= 5 -> r_nrentw r <= 10 -> ago_ok (r_nrkom r) (r_ago r) = true ->
    bbch_ok lines (ztn (r_nrentw r)) -> stale_ok lines s0 ->
    base_line p <> None -> p <> YIFAK_ -> edit_lines lines p 0 0 text = Some lines' -> val_as_float text = Some v ->
    state_of_classic cont lines s0 = Some s ->
    valid (single_base p v) (NRKOM s) (NRENTW s) = true ->
    state_of_classic cont lines' s0 = Some (apply cont (single_base p v) s).
  Proof.
    intros cont lines lines' r s0 s p text v P Hk He Ha Hb Hs Hbl Hy Hed Hv L V.
    destruct (base_line p) as [k|] eqn:Ek; [|congruence].
    assert (Kk : (k <= 12)%nat /\ k <> 8%nat) by (destruct p; cbn in Ek; try discriminate; inversion Ek; lia).
    unfold edit_lines in Hed. rewrite Ek in Hed.
    destruct (nth_error lines k) as [l|] eqn:El; [|discriminate].
    replace (match p with YIFAK_ => edit_at66 l text | _ => edit_at65 l text end) with (edit_at65 l text) in Hed
      by (destruct p; congruence).
    inversion Hed; subst lines'.
    eapply (override_commutes_classic_lemma cont lines _ r s0 s); eauto.
    - eapply edit_base65_parses; eauto.
    - apply bbch_ok_set_line; [intros i; lia|assumption].
    - apply stale_ok_set_line; [lia|assumption].
  Qed.
End Parse.

Lemma sample_override :
  exists r s o o', convert (T:=float) sample_lines = Some r /\
    state_of_yaml false r zero_state = Some s /\
    parse_overrides [(lstr_of "c_TSUM_2", lstr_of "300"); (lstr_of "c_PRO_1_2", lstr_of "0.25")] = Some o /\
    valid o (NRKOM s) (NRENTW s) = true /\ tendsum (apply false o s) <> tendsum s /\
    parse_overrides (T:=float) [(lstr_of "c_TSUM_3", lstr_of "300")] = Some o' /\ valid o' (NRKOM s) (NRENTW s) = false.
Proof.
  eexists. eexists. eexists. eexists.
  split; [vm_compute; reflexivity|].
  split; [vm_compute; reflexivity|].
  split; [vm_compute; reflexivity|].
  split; [vm_compute; reflexivity|].
  split.
  - intros H. vm_compute in H.
    assert (E : PrimFloat.eqb 448%float 432%float = true) by (rewrite H; reflexivity).
    vm_compute in E. discriminate E.
  - split; vm_compute; reflexivity.
Qed.

(* F29: a temperature sum of 0 is out of range (the smallest positive decimal stays valid) *)
Lemma tsum_zero_rejected :
  exists r s o o', convert (T:=float) sample_lines = Some r /\ state_of_yaml false r zero_state = Some s /\
    parse_overrides [(lstr_of "c_TSUM_1", lstr_of "0"); (lstr_of "c_MAXAMAX", lstr_of "30")] = Some o /\
    valid o (NRKOM s) (NRENTW s) = false /\ apply false o s = s /\
    parse_overrides (T:=float) [(lstr_of "c_TSUM_1", lstr_of "0.000000001")] = Some o' /\ valid o' (NRKOM s) (NRENTW s) = true.
Proof.
  eexists. eexists. eexists. eexists.
  split; [vm_compute; reflexivity|]. split; [vm_compute; reflexivity|]. split; [vm_compute; reflexivity|].
  split; [vm_compute; reflexivity|]. split; [apply invalid_rejected_lemma; vm_compute; reflexivity|].
  split; vm_compute; reflexivity.
Qed.
