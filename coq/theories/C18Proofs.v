(* C18Proofs.v — text-level lemmas (the edit of the classic file reads back as the override value)
   and the non-vacuity witness of Prop_C18. *)
From Coq Require Import ZArith List Bool Ascii String Floats Lia.
From Hermes Require Import Num DateModel CropParamModel CropParamProofs OverrideModel OverrideProofs C13Proofs C13Corr.
Import ListNotations.
Open Scope Z_scope.

Lemma ltrim_blanks n t : ltrim (blanks n ++ t) = ltrim t.
Proof. induction n as [|n IH]; cbn; [reflexivity|exact IH]. Qed.

Lemma trim_blanks n t : trim (blanks n ++ t) = trim t.
Proof. unfold trim. now rewrite ltrim_blanks. Qed.

Section Text.
  Context {T : Type} {NT : Num T}.

  Lemma val_as_float_blanks n t : val_as_float (T:=T) (blanks n ++ t) = val_as_float t.
  Proof. unfold val_as_float. now rewrite trim_blanks. Qed.

  Lemma edit_at65_reads_back (l text : lstr) :
    (65 <= List.length l)%nat -> f65 (T:=T) (edit_at65 l text) = val_as_float text.
  Proof.
    intros H. unfold f65, edit_at65, from.
    assert (L : List.length (firstn 65 l) = 65%nat) by (rewrite firstn_length; lia).
    rewrite app_length, L.
    replace (Nat.leb 65 (65 + List.length (blanks 3 ++ text))) with true by (symmetry; apply Nat.leb_le; lia).
    rewrite <- L at 1. rewrite skipn_app, skipn_all, Nat.sub_diag. cbn [skipn app].
    apply (val_as_float_blanks 3).
  Qed.
End Text.

Lemma sample_override :
  exists r s o o', convert (T:=float) sample_lines = Some r /\
    state_of_yaml false r zero_state = Some s /\
    parse_overrides [(lstr_of "c_TSUM_2", lstr_of "300"); (lstr_of "c_PRO_1_2", lstr_of "0.25")] = Some o /\
    valid o (NRKOM s) (NRENTW s) = true /\ tendsum (apply false o s) <> tendsum s /\
    parse_overrides [(lstr_of "c_TSUM_3", lstr_of "300")] = Some o' /\ valid o' (NRKOM s) (NRENTW s) = false.
Proof.
  eexists. eexists. eexists. eexists.
  split; [vm_compute; reflexivity|].
  split; [vm_compute; reflexivity|].
  split; [vm_compute; reflexivity|].
  split; [vm_compute; reflexivity|].
  split.
  - intros H. vm_compute in H.
    assert (E : PrimFloat.eqb 448%float 432%float = true) by (rewrite H; reflexivity).
    vm_compute in E. discriminate E.
  - split; vm_compute; reflexivity.
Qed.
