(* HarvestCorr.v — bit-exact tie of HarvestModel to hermes.Nitro called on a harvest day (sub-step 1, no fertiliser,
   no tillage, mineralisation depth 0) with a generated CROP_N.TXT: the pools after the call, the applied-fertiliser
   total, the residue / above-ground N / uptake figures of the crop record and, where the code keeps it, the crop's N. *)
From Coq Require Import ZArith List Bool Floats.
From Hermes Require Import Num HarvestModel.
Import ListNotations.

Record harv_obs := { hv_nfos : list float; hv_naos : list float; hv_dsumm : float; hv_nresid : float; hv_nagb : float;
                     hv_pesum_kept : bool; hv_pesum : float }.

Definition harvest_check (c : harvest_in (T:=float) * harv_obs) : nat :=
  let '(h, o) := c in
  let m := harvest h in
  ((if floats_same (ho_nfos m) (hv_nfos o) && floats_same (ho_naos m) (hv_naos o) then 0 else 1)
   + (if float_same (ho_dsumm m) (hv_dsumm o) then 0 else 2)
   + (if float_same (ro_nresid (ho_res m)) (hv_nresid o) && float_same (ro_nagb (ho_res m)) (hv_nagb o) then 0 else 4)
   + (if negb (hv_pesum_kept o) || float_same (ho_pesum m) (hv_pesum o) then 0 else 8))%nat.

(* the simulated dressing of the fertiliser prognosis (hermes.SimulateFertilizationAfterPrognose, exported): inputs
   (C1[0], DTGESN, SUMDIFF + TRNSUM as the code adds them, WG[0][0], DZ, DUNGBED), observed C1[0] and DUNGBED afterwards *)
Definition prog_check (c : float * float * float * float * float * float * (float * float)) : nat :=
  let '(c10, dtgesn, angebot, wg0, dz, dungbed, (o_c1, o_dungbed)) := c in
  let '(c1', bed) := prog_dress c10 dtgesn angebot wg0 dz in
  ((if float_same c1' o_c1 then 0 else 1)
   + (if float_same (if PrimFloat.ltb angebot dtgesn then PrimFloat.add dungbed bed else dungbed) o_dungbed then 0 else 2))%nat.
