(* HandleProofs.v — identical writers on one truncating-opened file leave exactly their
   common content, whatever the interleaving (HandleModel). *)
From Coq Require Import NArith Arith List Bool Lia.
From Hermes Require Import HandleModel.
Import ListNotations.
Local Open Scope N_scope.

Section HandleProofs.
  Context {byte : Type} (zero : byte).
  Variable d : list byte.
  Notation L := (N.of_nat (length d)).
  Notation wstate := (@wstate byte).

  Definition opened (s : wstate) : Prop := exists i o, offs s i = Some o.

  Definition inv (s : wstate) : Prop :=
    (forall i o, offs s i = Some o -> o <= L) /\
    (opened s ->
       flen (wfile s) <= L /\
       exists x ox, offs s x = Some ox /\
         forall p, p < ox -> p < flen (wfile s) /\ cont (wfile s) p = nth (N.to_nat p) d zero).

  Lemma upd_eq m i v : upd m i v i = v.
  Proof. unfold upd. now rewrite Nat.eqb_refl. Qed.
  Lemma upd_neq m i v j : j <> i -> upd m i v j = m j.
  Proof. intros H. unfold upd. apply Nat.eqb_neq in H. now rewrite H. Qed.

  Lemma nth_firstn_lt (l : list byte) : forall k i, (i < k)%nat -> nth i (firstn k l) zero = nth i l zero.
  Proof.
    induction l as [|a l IH]; intros k i Hi; [now rewrite firstn_nil|].
    destruct k; [lia|]. destruct i; cbn; [reflexivity|]. apply IH. lia.
  Qed.
  Lemma nth_skipn_add (l : list byte) : forall o i, nth i (skipn o l) zero = nth (o + i) l zero.
  Proof.
    induction l as [|a l IH]; intros o i.
    - rewrite skipn_nil. destruct i; destruct (o + _)%nat; reflexivity.
    - destruct o; cbn; [reflexivity|]. apply IH.
  Qed.
  Lemma nth_firstn_skipn (o k p : N) : o <= p < o + k ->
    nth (N.to_nat (p - o)) (firstn (N.to_nat k) (skipn (N.to_nat o) d)) zero = nth (N.to_nat p) d zero.
  Proof.
    intros Hp. rewrite nth_firstn_lt by lia. rewrite nth_skipn_add. f_equal. lia.
  Qed.

  Lemma step_inv s e s' : wstep zero d s e s' -> inv s -> inv s'.
  Proof.
    intros Hs [Hb Hx]. destruct Hs as [s i Hnone | s i o k Ho Hk]; unfold inv, opened; cbn [wfile offs fst fout_hopen hopen negb].
    - split.
      + intros j oj. destruct (Nat.eq_dec j i) as [->|Hne].
        * rewrite upd_eq. intros E. injection E as <-. lia.
        * rewrite upd_neq by exact Hne. apply Hb.
      + intros _. cbn. split; [lia|]. exists i, 0. split; [apply upd_eq|]. intros p Hp. lia.
    - assert (Hlen : N.of_nat (length (firstn (N.to_nat k) (skipn (N.to_nat o) d))) = k).
      { rewrite firstn_length, skipn_length. lia. }
      split.
      + intros j oj. destruct (Nat.eq_dec j i) as [->|Hne].
        * rewrite upd_eq. intros E. injection E as <-. lia.
        * rewrite upd_neq by exact Hne. apply Hb.
      + intros _. destruct (Hx (ex_intro _ i (ex_intro _ o Ho))) as (Hfl & x & ox & Hox & Hpre).
        unfold hwrite, hwritef. cbn [happ hoff fst flen cont]. rewrite Hlen. split; [lia|].
        destruct (Nat.eq_dec x i) as [->|Hne].
        * rewrite Ho in Hox. injection Hox as <-.
          exists i, (o + k). split; [apply upd_eq|]. intros p Hp. split; [lia|].
          destruct (N.lt_ge_cases p o) as [Hlt|Hge].
          -- replace ((o <=? p) && (p <? o + k)) with false
               by (symmetry; apply andb_false_iff; left; apply N.leb_gt; lia).
             apply Hpre. exact Hlt.
          -- replace ((o <=? p) && (p <? o + k)) with true
               by (symmetry; apply andb_true_iff; split; [apply N.leb_le|apply N.ltb_lt]; lia).
             apply nth_firstn_skipn. lia.
        * exists x, ox. split; [rewrite upd_neq by exact Hne; exact Hox|]. intros p Hp.
          destruct (Hpre p Hp) as [Hpl Hpc]. split; [lia|].
          destruct ((o <=? p) && (p <? o + k)) eqn:E.
          -- apply andb_true_iff in E as [E1 E2]. apply N.leb_le in E1. apply N.ltb_lt in E2.
             apply nth_firstn_skipn. lia.
          -- exact Hpc.
  Qed.

  Lemma exec_inv s tr s' : wexec zero d s tr s' -> inv s -> inv s'.
  Proof. induction 1; eauto using step_inv. Qed.

  Lemma skipn_cons_nth (l : list byte) : forall P, (P < length l)%nat -> skipn P l = nth P l zero :: skipn (S P) l.
  Proof.
    induction l as [|a l IH]; intros P HP; [cbn in HP; lia|].
    destruct P; [reflexivity|]. cbn [skipn nth]. apply IH. cbn in HP. lia.
  Qed.

  Lemma bytes_from_spec (f : hfile) : forall n p,
    (N.to_nat p + n <= length d)%nat ->
    (forall q, p <= q < p + N.of_nat n -> cont f q = nth (N.to_nat q) d zero) ->
    bytes_from f n p = firstn n (skipn (N.to_nat p) d).
  Proof.
    induction n as [|n IH]; intros p Hle Hc; [reflexivity|].
    cbn [bytes_from]. rewrite (skipn_cons_nth d (N.to_nat p)) by lia. cbn [firstn].
    rewrite Hc by lia. f_equal. rewrite IH.
    - f_equal. f_equal. lia.
    - lia.
    - intros q Hq. apply Hc. lia.
  Qed.

  (* C03: any number of runs of the SAME batch line writing the same result file at the same
     time (each opens truncating, then writes its — identical — content in chunks of any
     size), in ANY interleaving of their opens and writes, from ANY prior content of the
     file: once all of them have written everything, the file is exactly that content *)
  Theorem identical_writers_lemma : forall (f0 : hfile) (tr : list wevent) (s : wstate),
    wexec zero d (WState f0 (fun _ => None)) tr s ->
    opened s -> (forall i o, offs s i = Some o -> o = L) ->
    file_bytes (wfile s) = d.
  Proof.
    intros f0 tr s He Hop Hall.
    assert (Hi : inv (WState f0 (fun _ => None))).
    { split; [intros i o E; discriminate|]. intros (i & o & E). discriminate. }
    destruct (exec_inv _ _ _ He Hi) as [_ Hx]. destruct (Hx Hop) as (Hfl & x & ox & Hox & Hpre).
    rewrite (Hall _ _ Hox) in Hpre.
    assert (Hlen : flen (wfile s) = L).
    { destruct (N.eq_dec L 0) as [E0|Hne]; [lia|]. destruct (Hpre (L - 1)); lia. }
    unfold file_bytes. rewrite Hlen. rewrite bytes_from_spec.
    - cbn. rewrite Nat2N.id. apply firstn_all.
    - cbn. lia.
    - intros q Hq. apply Hpre. lia.
  Qed.

  (* with O_APPEND in addition (every write goes to the end) a second writer doubles the file *)
  Theorem append_flag_doubles_lemma : d <> [] ->
    let '(f1, ha) := hopen zero true true (empty_file zero) in
    let '(f2, hb) := hopen zero true true f1 in
    let '(f3, _) := hwrite zero f2 ha d in
    let '(f4, _) := hwrite zero f3 hb d in
    flen f4 = 2 * L /\ file_bytes f4 <> d.
  Proof.
    intros Hne. cbn [hopen hwrite hwritef happ hoff flen fst snd empty_file]. split; [lia|]. intros E.
    apply (f_equal (@length byte)) in E. unfold file_bytes in E. cbn [flen] in E.
    assert (Hl : forall f n p, length (bytes_from (byte:=byte) f n p) = n).
    { intros f n. induction n as [|n IH]; intros p; cbn; [reflexivity|]. now rewrite IH. }
    rewrite Hl in E. destruct d; [congruence|cbn [length] in E; lia].
  Qed.
End HandleProofs.
