(* WaterProofs.v — C01/C06 lemmas about WaterModel read over the reals (exact-arithmetic semantics
   of the program text, DESIGN.md §3 (R)).  Balance: purely algebraic, for every number of layers,
   every state and every sub-step length. *)
From Coq Require Import ZArith Reals List Bool Lia Lra Floats.
From Hermes Require Import Num RUtil Util WaterModel.
Import ListNotations.
Local Open Scope R_scope.

Notation DZR := (@DZ R RNum).
Lemma DZR_val : DZR = 10.
Proof. unfold DZ, ten. cbn. reflexivity. Qed.

(* ---------------------------------------------------------------- *)
(* uptake: WATER0 = WG0*DZ - TP'*wdt per layer                         *)
Lemma uptake_layer_water0 b wdt wg0 wmin tp :
  snd (@uptake_layer R RNum b wdt wg0 wmin tp) = wg0 * DZR - fst (uptake_layer b wdt wg0 wmin tp) * wdt.
Proof. unfold uptake_layer. cbn [fst snd]. rsimp. reflexivity. Qed.

(* ---------------------------------------------------------------- *)
(* infiltration: what enters = what is stored + what leaves below + drain *)
Lemma infil_balance draidep draifak ls : forall k1 a qd,
  ls <> [] -> (qd = 0 \/ (draidep < k1)%nat) ->
  let '(w1s, q1s, qd') := @infil R RNum draidep draifak k1 a qd ls in
  Rsum w1s + last q1s 0 + qd' = a + Rsum (map fst ls) + qd /\ length w1s = length ls /\ length q1s = length ls.
Proof.
  induction ls as [|[w0 w] rest IH]; intros k1 a qd Hne Hqd; [congruence|].
  cbn [infil]. rsimp.
  destruct (RI.ltb (a + w0 - w * DZR) 0) eqn:Hneg.
  - (* stays in this layer *)
    cbn [Rsum map fst length]. rewrite !map_length. repeat split; try reflexivity.
    destruct rest as [|r0 rest'].
    + cbn. lra.
    + rewrite last_cons_ne by (cbn; discriminate).
      rewrite (last_map_const (r0 :: rest') 0 0) by discriminate. lra.
  - destruct (Nat.eqb k1 draidep) eqn:Hk.
    + (* drain layer *)
      apply Nat.eqb_eq in Hk.
      destruct rest as [|r0 rest'].
      * cbn. destruct Hqd as [->|Hlt]; [|lia]. repeat split; try reflexivity. lra.
      * specialize (IH (S k1) ((1 - draifak) * (a + w0 - w * DZR)) (draifak * (a + w0 - w * DZR))
                       ltac:(discriminate) ltac:(right; lia)).
        destruct (infil draidep draifak (S k1) _ _ (r0 :: rest')) as [[w1s q1s] qd'].
        destruct IH as (IH & L1 & L2).
        cbn [Rsum map fst length]. rewrite L1, L2. repeat split; try reflexivity.
        rewrite last_cons_ne by (destruct q1s; cbn in L2; [discriminate|discriminate]).
        destruct Hqd as [->|Hlt]; [|lia]. cbn [Rsum map fst] in IH. lra.
    + apply Nat.eqb_neq in Hk.
      destruct rest as [|r0 rest'].
      * cbn. repeat split; try reflexivity. lra.
      * specialize (IH (S k1) (a + w0 - w * DZR) qd ltac:(discriminate)
                       ltac:(destruct Hqd; [left; assumption | right; lia])).
        destruct (infil draidep draifak (S k1) _ _ (r0 :: rest')) as [[w1s q1s] qd'].
        destruct IH as (IH & L1 & L2).
        cbn [Rsum map fst length]. rewrite L1, L2. repeat split; try reflexivity.
        rewrite last_cons_ne by (destruct q1s; cbn in L2; discriminate).
        cbn [Rsum map fst] in IH. lra.
Qed.

(* ---------------------------------------------------------------- *)
(* evaporation: stored water decreases by the demand minus what is booked as upward flux below *)
Lemma evap_balance wdt ls : forall a1 ev evs,
  ls <> [] ->
  let '(w1s, q1s, evs') := @evap R RNum wdt a1 ev evs ls in
  Rsum w1s = Rsum (map fst ls) - a1 - last q1s 0 /\ length w1s = length ls /\ length q1s = length ls.
Proof.
  induction ls as [|[w0 wmin] rest IH]; intros a1 ev evs Hne; [congruence|].
  cbn -[Rsum last length].
  set (low := RI.ltb (w0 - ev * wdt) (wmin / 3 * 10)).
  set (lim := if low then wmin / 3 * 10 else w0 - ev * wdt).
  set (evn := if low then hd 0 evs + (ev - w0 + wmin / 3 * 10) else hd 0 evs).
  destruct (RI.ltb a1 (w0 - lim)) eqn:Hg.
  - cbn [Rsum map fst length]. rewrite !map_length. repeat split; try reflexivity.
    destruct rest as [|r0 rest'].
    + cbn. lra.
    + rewrite last_cons_ne by (cbn; discriminate).
      rewrite (last_map_const (r0 :: rest') 0 0) by discriminate. lra.
  - destruct rest as [|r0 rest'].
    + cbn. repeat split; try reflexivity. lra.
    + specialize (IH (a1 - (w0 - lim)) evn (tl evs) ltac:(discriminate)).
      destruct (evap wdt (a1 - (w0 - lim)) evn (tl evs) (r0 :: rest')) as [[w1s q1s] evs'].
      destruct IH as (IH & L1 & L2).
      cbn [Rsum map fst length]. rewrite L1, L2. repeat split; try reflexivity.
      rewrite last_cons_ne by (destruct q1s; cbn in L2; discriminate).
      cbn [Rsum map fst] in IH. lra.
Qed.

(* ---------------------------------------------------------------- *)
(* overflow cascade: moves water down and out through the bottom only *)
Lemma cascade_balance ls : forall carry hc q1s,
  ls <> [] -> length q1s = length ls ->
  let '(ws, qs) := @cascade R RNum carry hc ls q1s in
  Rsum ws + last qs 0 = Rsum (map fst ls) + (if hc then carry else 0) + last q1s 0
  /\ length ws = length ls /\ length qs = length ls.
Proof.
  induction ls as [|[w1 w] rest IH]; intros carry hc q1s Hne Hlen; [congruence|].
  destruct q1s as [|q qrest]; [cbn in Hlen; lia|].
  cbn -[Rsum last length].
  set (w1c := if hc then w1 + carry else w1).
  assert (Hw1c : w1c = w1 + (if hc then carry else 0)) by (unfold w1c; destruct hc; lra).
  destruct (RI.ltb w (w1c / 10)) eqn:Hg.
  - destruct rest as [|r0 rest'].
    + destruct qrest; [|cbn in Hlen; lia]. cbn. repeat split; try reflexivity. lra.
    + specialize (IH (w1c - w * 10) true qrest ltac:(discriminate) ltac:(cbn in *; lia)).
      destruct (cascade (w1c - w * 10) true (r0 :: rest') qrest) as [ws qs].
      destruct IH as (IH & L1 & L2).
      cbn [Rsum map fst length]. rewrite L1, L2. repeat split; try reflexivity.
      rewrite !last_cons_ne.
      * cbn [Rsum map fst] in IH. lra.
      * destruct qrest; cbn in Hlen; [lia|discriminate].
      * destruct qs; cbn in L2; discriminate.
  - destruct rest as [|r0 rest'].
    + destruct qrest; [|cbn in Hlen; lia]. cbn. repeat split; try reflexivity. lra.
    + specialize (IH 0 false qrest ltac:(discriminate) ltac:(cbn in *; lia)).
      destruct (cascade 0 false (r0 :: rest') qrest) as [ws qs].
      destruct IH as (IH & L1 & L2).
      cbn [Rsum map fst length]. rewrite L1, L2. repeat split; try reflexivity.
      rewrite !last_cons_ne.
      * cbn [Rsum map fst] in IH. lra.
      * destruct qrest; cbn in Hlen; [lia|discriminate].
      * destruct qs; cbn in L2; discriminate.
Qed.

(* ---------------------------------------------------------------- *)
(* capillary bookkeeping on the flux list *)
Lemma add_from_length i c l : length (@add_from R RNum i c l) = length l.
Proof. revert i; induction l as [|x l IH]; intros [|i]; cbn; auto. Qed.

Lemma add_from_cons_shape i c x l : exists y r, @add_from R RNum i c (x :: l) = y :: r /\ length r = length l.
Proof. destruct i; cbn [add_from]; eexists; eexists; split; try reflexivity; apply add_from_length. Qed.

Lemma add_from_last i c l : (i < length l)%nat -> last (@add_from R RNum i c l) 0 = last l 0 - c.
Proof.
  revert i; induction l as [|x l IH]; intros i Hi; [cbn in Hi; lia|].
  destruct l as [|y l].
  - destruct i; [|cbn in Hi; lia]. cbn. reflexivity.
  - assert (Hi' : ((match i with O => O | S k => k end) < length (y :: l))%nat) by (destruct i; cbn in *; lia).
    specialize (IH _ Hi').
    destruct (add_from_cons_shape (match i with O => O | S k => k end) c y l) as (y' & r & E & _).
    rewrite E in IH.
    destruct i as [|i];
      [change (@add_from R RNum 0 c (x :: y :: l)) with ((x - c)%num :: @add_from R RNum 0 c (y :: l))
      |change (@add_from R RNum (S i) c (x :: y :: l)) with (x :: @add_from R RNum i c (y :: l))];
      rewrite E; exact IH.
Qed.

Lemma caplay_le k nfk : (@caplay_of R RNum k nfk <= k + length nfk - 1)%nat \/ caplay_of k nfk = O.
Proof.
  revert k; induction nfk as [|x r IH]; intros k; cbn [caplay_of]; [right; reflexivity|].
  destruct (IH (S k)) as [H|H].
  - destruct (Nat.eqb (caplay_of (S k) r) 0); [|left; cbn [length]; lia].
    destruct (x <? dec 7 1)%num; [left; cbn [length]; lia | right; reflexivity].
  - rewrite H. cbn [Nat.eqb]. destruct (x <? dec 7 1)%num; [left; cbn [length]; lia | right; reflexivity].
Qed.

Lemma caplay_ge k nfk : caplay_of (T:=R) k nfk <> O -> (k <= caplay_of k nfk)%nat.
Proof.
  revert k; induction nfk as [|x r IH]; intros k; cbn [caplay_of]; [congruence|].
  destruct (Nat.eqb (caplay_of (S k) r) 0) eqn:E.
  - destruct (x <? dec 7 1)%num; [lia | congruence].
  - apply Nat.eqb_neq in E. intros _. specialize (IH (S k) E). lia.
Qed.

(* ---------------------------------------------------------------- *)
(* assembly: the sub-step balance                                      *)

Lemma map_fst_combine {A B} (l1 : list A) (l2 : list B) :
  length l1 = length l2 -> map fst (combine l1 l2) = l1.
Proof.
  revert l2; induction l1 as [|a l1 IH]; intros [|b l2] H; cbn in *; try lia; auto.
  f_equal. apply IH. lia.
Qed.

Lemma combine_length_eq {A B} (l1 : list A) (l2 : list B) :
  length l1 = length l2 -> length (combine l1 l2) = length l1.
Proof. intros H. rewrite combine_length. lia. Qed.

Lemma Rsum_uptake b wdt (zs : list (R * R * R)) :
  Rsum (map snd (map (fun '(wg0, wmin, tp) => @uptake_layer R RNum b wdt wg0 wmin tp) zs)) =
  Rsum (map (fun z => fst (fst z) * DZR) zs)
  - Rsum (map (fun tp => tp * wdt) (map fst (map (fun '(wg0, wmin, tp) => @uptake_layer R RNum b wdt wg0 wmin tp) zs))).
Proof.
  induction zs as [|[[wg0 wmin] tp] zs IH]; cbn [map Rsum fst snd]; [lra|].
  rewrite IH, uptake_layer_water0. lra.
Qed.

Lemma map_mul_div_DZ (l : list R) : map (fun v => v * DZR) (map (fun w => w / DZR) l) = l.
Proof.
  rewrite map_map. rewrite <- (map_id l) at 2. apply map_ext. intros a. rewrite DZR_val. field.
Qed.

Definition wf_in (x : water_in (T:=R)) (n : nat) : Prop :=
  (1 <= n)%nat /\ length (wi_wg0 x) = n /\ length (wi_tp x) = n /\ length (wi_w x) = n /\
  length (wi_wmin x) = n /\ length (wi_nfk x) = n /\ length (wi_ev x) = S n /\ length (wi_q1 x) = S n.

Lemma firstn_app_exact {A} (l r : list A) n : length l = n -> firstn n (l ++ r) = l.
Proof. intros <-. rewrite firstn_app, Nat.sub_diag, firstn_all. cbn. apply app_nil_r. Qed.

Lemma uptake_phase_spec (x : water_in (T:=R)) n :
  wf_in x n ->
  let '(tp', water0) := uptake_phase x in
  Rsum water0 = Rsum (map (fun v => v * DZR) (wi_wg0 x)) - Rsum (map (fun tp => tp * wi_wdt x) tp')
  /\ length water0 = n /\ length tp' = n.
Proof.
  intros (Hn & Lwg & Ltp & Lw & Lwmin & Lnfk & Lev & Lq1).
  unfold uptake_phase.
  set (zs := combine (combine (wi_wg0 x) (wi_wmin x)) (wi_tp x)).
  assert (Lzs : length zs = n) by (unfold zs; rewrite !combine_length; lia).
  assert (Hzs : map (fun z => fst (fst z) * DZR) zs = map (fun v => v * DZR) (wi_wg0 x)).
  { unfold zs. rewrite <- (map_map (fun z => fst (fst z)) (fun v => v * DZR)).
    rewrite <- (map_map fst fst).
    rewrite !map_fst_combine; [reflexivity | lia | rewrite combine_length; lia]. }
  pose proof (Rsum_uptake (wi_subd1 x) (wi_wdt x) zs) as HU. rewrite Hzs in HU.
  repeat split; [exact HU | rewrite !map_length; exact Lzs | rewrite !map_length; exact Lzs].
Qed.

Lemma combine_ne {A B} (l1 : list A) (l2 : list B) n :
  (1 <= n)%nat -> length l1 = n -> length l2 = n -> combine l1 l2 <> [].
Proof. intros Hn L1 L2 E. apply (f_equal (@length _)) in E. rewrite combine_length in E. cbn in E. lia. Qed.

Lemma surface_phase_spec (x : water_in (T:=R)) water0 n :
  wf_in x n -> length water0 = n ->
  let '(water1, q1, qdrain, ev') := surface_phase x water0 in
  Rsum water1 + last q1 0 + qdrain = Rsum water0 + wi_fluss0 x * wi_wdt x /\
  length water1 = n /\ length q1 = S n.
Proof.
  intros (Hn & Lwg & Ltp & Lw & Lwmin & Lnfk & Lev & Lq1) Lw0.
  unfold surface_phase. cbn zeta.
  destruct (gtb (wi_fluss0 x) zero) eqn:Hpos.
  - pose proof (infil_balance (wi_draidep x) (wi_draifak x) (combine water0 (wi_w x)) 1
                  (wi_fluss0 x * wi_wdt x) 0 (combine_ne _ _ n Hn Lw0 Lw) (or_introl eq_refl)) as HI.
    rsimp.
    destruct (infil (wi_draidep x) (wi_draifak x) 1 (wi_fluss0 x * wi_wdt x) 0 (combine water0 (wi_w x)))
      as [[w1s q1s] qd].
    destruct HI as (HI & L1 & L2).
    rewrite map_fst_combine in HI by lia. rewrite combine_length in L1, L2.
    repeat split; try (cbn [length]; lia).
    rewrite last_cons_ne by (destruct q1s; cbn in L2; [lia | discriminate]). lra.
  - destruct (wi_fluss0 x <? zero)%num eqn:Hneg.
    + pose proof (evap_balance (wi_wdt x) (combine water0 (wi_wmin x))
                    (Rabs (wi_fluss0 x) * wi_wdt x) (hd 0 (wi_ev x)) (tl (wi_ev x))
                    (combine_ne _ _ n Hn Lw0 Lwmin)) as HE.
      rsimp.
      destruct (evap (wi_wdt x) (Rabs (wi_fluss0 x) * wi_wdt x) (hd 0 (wi_ev x)) (tl (wi_ev x))
                     (combine water0 (wi_wmin x))) as [[w1s q1s] evs].
      destruct HE as (HE & L1 & L2).
      rewrite map_fst_combine in HE by lia. rewrite combine_length in L1, L2.
      repeat split; try (cbn [length]; lia).
      rewrite last_cons_ne by (destruct q1s; cbn in L2; [lia | discriminate]).
      apply ltbR in Hneg. rewrite Rabs_left in HE by exact Hneg. lra.
    + apply gtbR_false in Hpos. apply ltbR_false in Hneg. rsimp.
      assert (E0 : wi_fluss0 x = 0) by lra.
      repeat split; try (cbn [length]; rewrite ?map_length; lia).
      rewrite last_cons_ne.
      * rewrite (last_map_const water0 0 0); [rewrite E0; lra|].
        intros E; rewrite E in Lw0; cbn in Lw0; lia.
      * intros E. apply (f_equal (@length _)) in E. rewrite map_length in E. cbn in E. lia.
Qed.

Lemma cascade_phase_spec (x : water_in (T:=R)) water1 q1 n :
  wf_in x n -> length water1 = n -> length q1 = S n ->
  let '(water1c, q1c) := cascade_phase x water1 q1 in
  Rsum water1c + last q1c 0 = Rsum water1 + last q1 0 /\ length water1c = n /\ length q1c = S n.
Proof.
  intros (Hn & Lwg & Ltp & Lw & Lwmin & Lnfk & Lev & Lq1) Lw1 Lq.
  unfold cascade_phase.
  pose proof (cascade_balance (combine water1 (wi_w x)) 0 false (tl q1) (combine_ne _ _ n Hn Lw1 Lw)) as HC.
  assert (Ltl : length (tl q1) = length (combine water1 (wi_w x))).
  { rewrite combine_length. destruct q1; cbn in *; lia. }
  specialize (HC Ltl). rsimp.
  destruct (cascade 0 false (combine water1 (wi_w x)) (tl q1)) as [water1c q1tl].
  destruct HC as (HC & Lc1 & Lc2).
  rewrite map_fst_combine in HC by lia. rewrite combine_length in Lc1, Lc2.
  assert (Hlastq1 : last q1 0 = last (tl q1) 0).
  { destruct q1 as [|q0 qr]; [cbn in Lq; lia|]. cbn [tl]. apply last_cons_ne.
    intros E. rewrite E in Lq. cbn in Lq. lia. }
  repeat split; try (cbn [length]; lia).
  rewrite last_cons_ne by (intros E; rewrite E in Lc2; cbn in Lc2; lia). lra.
Qed.

Lemma capillary_phase_spec (x : water_in (T:=R)) water1c q1c n :
  wf_in x n -> length water1c = n -> length q1c = S n ->
  let '(water1k, q1k, capterm, caplay) := capillary_phase x water1c q1c in
  Rsum water1k + last q1k 0 = Rsum water1c + last q1c 0 /\ length water1k = n /\ length q1k = S n.
Proof.
  intros (Hn & Lwg & Ltp & Lw & Lwmin & Lnfk & Lev & Lq1) Lc1 Lc2.
  unfold capillary_phase. cbn zeta.
  set (caplay := caplay_of 1 (wi_nfk x)).
  destruct (Nat.eqb caplay 0) eqn:Hc0; [repeat split; auto|].
  apply Nat.eqb_neq in Hc0.
  destruct (_ <? ofZ 21)%num; [|repeat split; auto].
  destruct (gtb _ (dec 9 1)); [|repeat split; auto].
  assert (Hrange : (1 <= caplay <= n)%nat).
  { unfold caplay in *. pose proof (caplay_ge 1 (wi_nfk x) Hc0) as Hge.
    destruct (caplay_le 1 (wi_nfk x)) as [Hle|Hle]; [lia|congruence]. }
  rewrite upd_length, add_from_length. repeat split; try lia.
  rewrite Rsum_upd by lia. rewrite add_from_last by lia. rsimp. lra.
Qed.

Lemma water_step_balance_lemma (x : water_in (T:=R)) n :
  wf_in x n ->
  let o := water_step x in
  Rsum (map (fun v => v * DZR) (firstn n (wo_wg1 o))) =
    Rsum (map (fun v => v * DZR) (wi_wg0 x)) - Rsum (wo_tpsum_terms o)
    + wi_fluss0 x * wi_wdt x - last (wo_q1 o) 0 - wo_qdrain o
  /\ length (wo_wg1 o) = S n /\ length (wo_q1 o) = S n /\ length (wo_tp o) = n.
Proof.
  intros Hwf. unfold water_step.
  pose proof (uptake_phase_spec x n Hwf) as HU.
  destruct (uptake_phase x) as [tp' water0]. destruct HU as (HU & Lw0 & Ltp').
  pose proof (surface_phase_spec x water0 n Hwf Lw0) as HS.
  destruct (surface_phase x water0) as [[[water1 q1] qdrain] ev']. destruct HS as (HS & Lw1 & Lq).
  pose proof (cascade_phase_spec x water1 q1 n Hwf Lw1 Lq) as HC.
  destruct (cascade_phase x water1 q1) as [water1c q1c]. destruct HC as (HC & Lc1 & Lc2).
  pose proof (capillary_phase_spec x water1c q1c n Hwf Lc1 Lc2) as HK.
  destruct (capillary_phase x water1c q1c) as [[[water1k q1k] capterm] caplay].
  destruct HK as (HK & Lk1 & Lk2).
  cbn [wo_wg1 wo_q1 wo_qdrain wo_tpsum_terms wo_tp].
  set (wg1 := map (fun w => (w / DZR)%num) water1k).
  assert (Lwg1 : length wg1 = n) by (unfold wg1; rewrite map_length; exact Lk1).
  rewrite firstn_app_exact by exact Lwg1.
  unfold wg1. rsimp. rewrite map_mul_div_DZ.
  repeat split.
  - lra.
  - rewrite app_length, map_length. cbn. lia.
  - exact Lk2.
  - exact Ltp'.
Qed.

(* ---------------------------------------------------------------- *)
(* the day: any number of sub-steps                                     *)

Definition storage (wg : list R) : R := Rsum (map (fun v => v * DZR) wg).

Lemma uptake_phase_later_tp (x : water_in (T:=R)) n :
  wf_in x n -> wi_subd1 x = false -> fst (uptake_phase x) = wi_tp x.
Proof.
  intros (Hn & Lwg & Ltp & Lw & Lwmin & Lnfk & Lev & Lq1) Hs. unfold uptake_phase. cbn [fst]. rewrite Hs.
  rewrite map_map.
  transitivity (map snd (combine (combine (wi_wg0 x) (wi_wmin x)) (wi_tp x))).
  - apply map_ext. intros [[a b] c]. reflexivity.
  - assert (L : length (combine (wi_wg0 x) (wi_wmin x)) = length (wi_tp x)) by (rewrite combine_length; lia).
    revert L. generalize (combine (wi_wg0 x) (wi_wmin x)) (wi_tp x).
    induction l as [|a l IH]; intros [|b l0] L; cbn in *; try lia; auto. f_equal. apply IH. lia.
Qed.

Lemma water_step_terms (x : water_in (T:=R)) :
  wo_tpsum_terms (water_step x) = map (fun tp => tp * wi_wdt x) (wo_tp (water_step x)).
Proof.
  unfold water_step. destruct (uptake_phase x) as [tp' water0].
  destruct (surface_phase x water0) as [[[water1 q1] qdrain] ev'].
  destruct (cascade_phase x water1 q1) as [water1c q1c].
  destruct (capillary_phase x water1c q1c) as [[[water1k q1k] capterm] caplay]. reflexivity.
Qed.

Lemma water_step_tp_later (x : water_in (T:=R)) n :
  wf_in x n -> wi_subd1 x = false -> wo_tp (water_step x) = wi_tp x.
Proof.
  intros Hwf Hs. pose proof (uptake_phase_later_tp x n Hwf Hs) as H.
  unfold water_step. destruct (uptake_phase x) as [tp' water0]. cbn [fst] in H. subst tp'.
  destruct (surface_phase x water0) as [[[water1 q1] qdrain] ev'].
  destruct (cascade_phase x water1 q1) as [water1c q1c].
  destruct (capillary_phase x water1c q1c) as [[[water1k q1k] capterm] caplay]. reflexivity.
Qed.

Lemma evap_ev_length wdt ls : forall a1 ev evs, length evs = length ls ->
  length (snd (@evap R RNum wdt a1 ev evs ls)) = S (length ls).
Proof.
  induction ls as [|[w0 wm] rest IH]; intros a1 ev evs L; [destruct evs; cbn in *; [reflexivity|lia]|].
  cbn -[length].
  set (low := RI.ltb (w0 - ev * wdt) (wm / 3 * 10)).
  set (lim := if low then wm / 3 * 10 else w0 - ev * wdt).
  set (evn := if low then hd 0 evs + (ev - w0 + wm / 3 * 10) else hd 0 evs).
  destruct (RI.ltb a1 (w0 - lim)).
  - cbn [snd length]. destruct evs; cbn in *; lia.
  - specialize (IH (a1 - (w0 - lim)) evn (tl evs)).
    destruct (evap wdt (a1 - (w0 - lim)) evn (tl evs) rest) as [[w1s q1s] evs']. cbn [snd length] in *.
    rewrite IH; [reflexivity|]. destruct evs; cbn in *; lia.
Qed.

Lemma surface_phase_ev_length (x : water_in (T:=R)) water0 n :
  wf_in x n -> length water0 = n ->
  length (snd (surface_phase x water0)) = S n.
Proof.
  intros (Hn & Lwg & Ltp & Lw & Lwmin & Lnfk & Lev & Lq1) Lw0.
  unfold surface_phase. cbn zeta.
  destruct (gtb (wi_fluss0 x) zero).
  - destruct (infil _ _ _ _ _ _) as [[w1s q1s] qd]. exact Lev.
  - destruct (wi_fluss0 x <? zero)%num; [|exact Lev].
    pose proof (evap_ev_length (wi_wdt x) (combine water0 (wi_wmin x)) (absv (wi_fluss0 x) * wi_wdt x)%num
                  (hd zero (wi_ev x)) (tl (wi_ev x))) as G.
    destruct (evap _ _ _ _ _) as [[w1s q1s] evs]. cbn [snd] in *.
    rewrite G; rewrite combine_length; [lia|]. destruct (wi_ev x); cbn in *; lia.
Qed.

Lemma water_next_wf (x : water_in (T:=R)) n :
  wf_in x n -> wf_in (water_next x (water_step x)) n /\ wi_subd1 (water_next x (water_step x)) = false.
Proof.
  intros Hwf. split; [|reflexivity].
  pose proof (water_step_balance_lemma x n Hwf) as (_ & L1 & L2 & L3).
  pose proof Hwf as (Hn & Lwg & Ltp & Lw & Lwmin & Lnfk & Lev & Lq1).
  unfold wf_in, water_next. cbn [wi_wg0 wi_tp wi_w wi_wmin wi_nfk wi_ev wi_q1].
  repeat split; try assumption.
  - rewrite firstn_length. lia.
  - unfold water_step.
    pose proof (uptake_phase_spec x n Hwf) as HU.
    destruct (uptake_phase x) as [tp' water0]. destruct HU as (_ & Lw0 & _).
    pose proof (surface_phase_ev_length x water0 n Hwf Lw0) as HE.
    destruct (surface_phase x water0) as [[[water1 q1] qdrain] ev'].
    destruct (cascade_phase x water1 q1) as [water1c q1c].
    destruct (capillary_phase x water1c q1c) as [[[water1k q1k] capterm] caplay]. exact HE.
Qed.

(* storage after k sub-steps *)
Fixpoint final_wg (wg : list R) (n : nat) (outs : list (water_out (T:=R))) : list R :=
  match outs with [] => wg | o :: r => final_wg (firstn n (wo_wg1 o)) n r end.

Lemma water_iter_balance k : forall (x : water_in (T:=R)) n,
  wf_in x n ->
  let outs := water_iter k x in
  storage (final_wg (wi_wg0 x) n outs) =
    storage (wi_wg0 x)
    - Rsum (map (fun o => Rsum (wo_tpsum_terms o)) outs)
    + INR k * (wi_fluss0 x * wi_wdt x)
    - Rsum (map (fun o => last (wo_q1 o) 0) outs)
    - Rsum (map (fun o => wo_qdrain o) outs).
Proof.
  induction k as [|k IH]; intros x n Hwf.
  - cbv zeta. cbn [water_iter final_wg map Rsum INR]. lra.
  - cbn [water_iter]. cbv zeta.
    pose proof (water_step_balance_lemma x n Hwf) as (HB & L1 & L2 & L3).
    destruct (water_next_wf x n Hwf) as [Hwf' _].
    specialize (IH (water_next x (water_step x)) n Hwf').
    cbn [final_wg map Rsum].
    assert (Ewg : wi_wg0 (water_next x (water_step x)) = firstn n (wo_wg1 (water_step x))).
    { cbn. destruct Hwf as (_ & -> & _). reflexivity. }
    rewrite Ewg in IH. cbv zeta in IH. rewrite IH. cbv zeta in HB.
    change (wi_fluss0 (water_next x (water_step x))) with (wi_fluss0 x).
    change (wi_wdt (water_next x (water_step x))) with (wi_wdt x).
    rewrite S_INR. unfold storage in *. rewrite HB. lra.
Qed.

(* from the second sub-step on the uptake terms are those of the first sub-step *)
Lemma water_iter_tp k : forall (x : water_in (T:=R)) n,
  wf_in x n -> wi_subd1 x = false ->
  Forall (fun o => wo_tpsum_terms o = map (fun tp => tp * wi_wdt x) (wi_tp x)) (water_iter k x).
Proof.
  induction k as [|k IH]; intros x n Hwf Hs; cbn [water_iter]; [constructor|].
  cbv zeta.
  assert (Etp : wo_tp (water_step x) = wi_tp x) by (apply (water_step_tp_later x n Hwf Hs)).
  constructor.
  - rewrite water_step_terms, Etp. reflexivity.
  - destruct (water_next_wf x n Hwf) as [Hwf' Hs'].
    specialize (IH (water_next x (water_step x)) n Hwf' Hs').
    cbn [wi_wdt wi_tp water_next] in IH. rewrite Etp in IH. exact IH.
Qed.

Lemma water_iter_length k : forall x : water_in (T:=R), length (water_iter k x) = k.
Proof. induction k as [|k IH]; intros x; cbn [water_iter length]; [reflexivity|]. cbv zeta. cbn [length]. rewrite IH. reflexivity. Qed.

(* C01, day level: k >= 1 sub-steps of length 1/k — the day's storage change is surface flux minus the
   (clamped) uptake minus bottom flux minus drain outflow, whatever k is *)
Lemma day_balance_lemma (x : water_in (T:=R)) n k :
  wf_in x n -> (1 <= k)%nat -> wi_wdt x = / INR k ->
  let outs := water_iter k x in
  let tp_day := wo_tp (water_step x) in
  storage (final_wg (wi_wg0 x) n outs) =
    storage (wi_wg0 x) - Rsum tp_day + wi_fluss0 x
    - Rsum (map (fun o => last (wo_q1 o) 0) outs)
    - Rsum (map (fun o => wo_qdrain o) outs).
Proof.
  intros Hwf Hk Hwdt. cbv zeta.
  pose proof (water_iter_balance k x n Hwf) as HB. cbv zeta in HB. rewrite HB.
  assert (HINR : INR k <> 0) by (apply not_0_INR; lia).
  assert (E1 : INR k * (wi_fluss0 x * wi_wdt x) = wi_fluss0 x) by (rewrite Hwdt; field; exact HINR).
  rewrite E1.
  assert (E2 : Rsum (map (fun o => Rsum (wo_tpsum_terms o)) (water_iter k x))
               = Rsum (wo_tp (water_step x))).
  { destruct k as [|k]; [lia|]. cbn [water_iter]. cbv zeta. cbn [map Rsum].
    destruct (water_next_wf x n Hwf) as [Hwf' Hs'].
    pose proof (water_iter_tp k (water_next x (water_step x)) n Hwf' Hs') as HF.
    cbn [wi_wdt wi_tp water_next] in HF.
    assert (Hsum : Rsum (map (fun o => Rsum (wo_tpsum_terms o)) (water_iter k (water_next x (water_step x))))
                   = INR (length (water_iter k (water_next x (water_step x)))) * (Rsum (wo_tp (water_step x)) * wi_wdt x)).
    { induction HF as [|o l Ho HF IH]; cbn [map Rsum]; [cbn; lra|].
      rewrite Ho, IH, Rsum_map_scale.
      replace (INR (length (o :: l))) with (INR (length l) + 1) by (cbn [length]; rewrite S_INR; reflexivity).
      lra. }
    rewrite Hsum, water_iter_length, water_step_terms, Rsum_map_scale, Hwdt. rewrite S_INR in *. field. exact HINR. }
  rewrite E2. lra.
Qed.

(* ---------------------------------------------------------------- *)
(* counters mirror the fluxes (OUTN = any index)                        *)
Lemma tp_fold_keeps terms : forall i b (c : water_counters (T:=R)),
  c_sicker (tp_fold i b terms c) = c_sicker c /\ c_capsum (tp_fold i b terms c) = c_capsum c /\
  c_draisum (tp_fold i b terms c) = c_draisum c.
Proof.
  induction terms as [|t r IH]; intros i b c; cbn [tp_fold]; [auto|].
  match goal with |- context [tp_fold (S i) b r ?cc] => destruct (IH (S i) b cc) as (F1 & F2 & F3) end.
  rewrite F1, F2, F3. cbn. auto.
Qed.

Lemma counters_mirror_lemma (x : water_in (T:=R)) (o : water_out (T:=R)) (c : water_counters (T:=R)) :
  let c' := water_counters_step x o c in
  let qout := get 0 (wo_q1 o) (wi_outn x) in
  (c_sicker c' + c_capsum c') - (c_sicker c + c_capsum c) = 10 * qout - 10 * wi_gwauf x * wi_wdt x /\
  c_draisum c' - c_draisum c = 10 * wo_qdrain o /\
  (0 <= qout -> c_sicker c <= c_sicker c') /\ (qout <= 0 -> c_sicker c' = c_sicker c).
Proof.
  cbv zeta. unfold water_counters_step.
  set (c1 := tp_fold 1 (wi_after_sow x) (wo_tpsum_terms o) c).
  assert (E : c_sicker c1 = c_sicker c /\ c_capsum c1 = c_capsum c /\ c_draisum c1 = c_draisum c).
  { unfold c1. apply tp_fold_keeps. }
  destruct E as (E1 & E2 & E3).
  cbn [c_sicker c_capsum c_draisum]. rsimp. rewrite E1, E2, E3.
  unfold get.
  destruct (RI.ltb_spec 0 (nth (wi_outn x) (wo_q1 o) 0)) as [Hpos|Hnpos]; repeat split; intros; try lra.
Qed.

