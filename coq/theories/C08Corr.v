(* C08Corr.v — runs EvatraModel.evatra_struct at binary64 on the states hermes.Evatra was run on and
   compares every observable output bit for bit (kernel tie, DESIGN.md §2.3). *)
From Coq Require Import ZArith List Bool Floats.
From Hermes Require Import Num WaterModel EvatraModel Et0Model C01Corr.
Import ListNotations.

Record evatra_obs := {
  eb_nfk : list float; eb_eva : float; eb_eta : float; eb_ev : list float; eb_fluss0 : float;
  eb_lumday : Z; eb_lured : float; eb_tp : list float; eb_gwauf : float; eb_etrel : float; eb_trrel : float;
  eb_wurz : nat;
}.

(* bitmask of the output groups that differ:
   1 NFK, 2 EVA/ETA/FLUSS0, 4 EV, 8 LUMDAY/LURED, 16 TP, 32 GWAUF, 64 ETREL, 128 TRREL, 256 WURZ *)
Definition evatra_check (c : evatra_in (T:=float) * evatra_obs) : nat :=
  let '(x, o) := c in
  let m := evatra_struct x in
  let b (ok : bool) (v : nat) := if ok then 0%nat else v in
  (b (floats_same (eo_nfk m) (eb_nfk o)) 1 +
   b (float_same (eo_eva m) (eb_eva o) && float_same (eo_eta m) (eb_eta o) && float_same (eo_fluss0 m) (eb_fluss0 o)) 2 +
   b (floats_same (eo_ev m) (eb_ev o)) 4 +
   b (Z.eqb (eo_lumday m) (eb_lumday o) && float_same (eo_lured m) (eb_lured o)) 8 +
   b (floats_same (eo_tp m) (eb_tp o)) 16 +
   b (float_same (eo_gwauf m) (eb_gwauf o)) 32 +
   b (float_same (eo_etrel m) (eb_etrel o)) 64 +
   b (float_same (eo_trrel m) (eb_trrel o)) 128 +
   b (Nat.eqb (eo_wurz m) (eb_wurz o)) 256)%nat.

(* the cap/floor step alone: (crop?, uncapped value, observed capped value) *)
Definition cap_check (c : bool * float * float) : nat :=
  let '(crop, v, r) := c in if float_same (pot_cap crop v) r then 0%nat else 1%nat.

(* ---------------------------------------------------------------------------------------------- *)
(* potential ET before the cap (Et0Model): the oracle functions at binary64 are a table of the values
   Go computed, keyed by kind (1 exp, 2 log, 3 sin, 4 cos, 5 tan, 6 asin, 7 acos, 8 pow) and argument bits;
   a key that is not in the table yields [miss] *)
Definition otab := list (nat * float * float * float).

Fixpoint tab_find (miss : float) (t : otab) (k : nat) (a b : float) : float :=
  match t with
  | [] => miss
  | (k', a', b', v) :: r =>
      if Nat.eqb k k' && float_same a a' && float_same b b' then v else tab_find miss r k a b
  end.

Definition orc_of_table (miss : float) (t : otab) : Orc float :=
  {| o_exp := fun x => tab_find miss t 1 x PrimFloat.zero; o_log := fun x => tab_find miss t 2 x PrimFloat.zero;
     o_sin := fun x => tab_find miss t 3 x PrimFloat.zero; o_cos := fun x => tab_find miss t 4 x PrimFloat.zero;
     o_tan := fun x => tab_find miss t 5 x PrimFloat.zero; o_asin := fun x => tab_find miss t 6 x PrimFloat.zero;
     o_acos := fun x => tab_find miss t 7 x PrimFloat.zero; o_pow := fun x y => tab_find miss t 8 x y |}.

(* the Go compiler's values of the constant expressions (one rounding each) *)
Definition constsF : Consts float :=
  {| k_pi := 0x1.921fb54442d18p+1%float; k_2pi := 0x1.921fb54442d18p+2%float;
     k_2pi_365 := 0x1.1a099d4b3ac9ap-6%float; k_8pi_180 := 0x1.1df46a2529d39p-3%float;
     k_sc := 0x1.d5d34ce3fda04p+11%float; k_24_pi := 0x1.e8ec8a4aeacc4p+2%float |}.

Definition consts_check (c : list float) : nat :=
  if floats_same c [k_pi constsF; k_2pi constsF; k_2pi_365 constsF; k_8pi_180 constsF; k_sc constsF; k_24_pi constsF]
  then 0%nat else 1%nat.

Record et0_obs := {
  tb_precap : float; tb_et0 : float; tb_satdef : float; tb_rstom : float; tb_wind : float; tb_sund : float;
  tb_fkc : float; tb_radsum : float; tb_capped : float;
}.

Definition et0_outs (m : et0_out (T:=float)) : list float :=
  [to_precap m; to_et0 m; to_satdef m; to_rstom m; to_wind m; to_sund m; to_fkc m; to_radsum m].

(* bitmask: 1 pre-cap potential ET, 2 ET0, 4 SATDEF, 8 RSTOM, 16 WIND, 32 SUND, 64 FKC, 128 RADSUM,
   256 capped value (pot_cap of the model's pre-cap value), 512 an oracle argument the model asks for is
   not in the table (the result depends on the value returned for a miss) *)
Definition et0_check (c : et0_in (T:=float) * otab * et0_obs) : nat :=
  let '(x, t, o) := c in
  let m := et0_struct (orc_of_table PrimFloat.nan t) constsF x in
  let b (ok : bool) (v : nat) := if ok then 0%nat else v in
  let v :=
    (b (float_same (to_precap m) (tb_precap o)) 1 + b (float_same (to_et0 m) (tb_et0 o)) 2 +
     b (float_same (to_satdef m) (tb_satdef o)) 4 + b (float_same (to_rstom m) (tb_rstom o)) 8 +
     b (float_same (to_wind m) (tb_wind o)) 16 + b (float_same (to_sund m) (tb_sund o)) 32 +
     b (float_same (to_fkc m) (tb_fkc o)) 64 + b (float_same (to_radsum m) (tb_radsum o)) 128 +
     b (float_same (pot_cap (ti_crop x) (to_precap m)) (tb_capped o)) 256)%nat in
  (* a missing key yields NaN; only when something differs the model is run again with another value for a
     miss to tell a missing oracle entry from a genuine disagreement *)
  if Nat.eqb v 0 then 0%nat
  else (v + b (floats_same (et0_outs m) (et0_outs (et0_struct (orc_of_table PrimFloat.one t) constsF x))) 512)%nat.
