(* C08Corr.v — runs EvatraModel.evatra_struct at binary64 on the states hermes.Evatra was run on and
   compares every observable output bit for bit (kernel tie, DESIGN.md §2.3). *)
From Coq Require Import ZArith List Bool Floats.
From Hermes Require Import Num WaterModel EvatraModel C01Corr.
Import ListNotations.

Record evatra_obs := {
  eb_nfk : list float; eb_eva : float; eb_eta : float; eb_ev : list float; eb_fluss0 : float;
  eb_lumday : Z; eb_lured : float; eb_tp : list float; eb_gwauf : float; eb_etrel : float; eb_trrel : float;
  eb_wurz : nat;
}.

(* bitmask of the output groups that differ:
   1 NFK, 2 EVA/ETA/FLUSS0, 4 EV, 8 LUMDAY/LURED, 16 TP, 32 GWAUF, 64 ETREL, 128 TRREL, 256 WURZ *)
Definition evatra_check (c : evatra_in (T:=float) * evatra_obs) : nat :=
  let '(x, o) := c in
  let m := evatra_struct x in
  let b (ok : bool) (v : nat) := if ok then 0%nat else v in
  (b (floats_same (eo_nfk m) (eb_nfk o)) 1 +
   b (float_same (eo_eva m) (eb_eva o) && float_same (eo_eta m) (eb_eta o) && float_same (eo_fluss0 m) (eb_fluss0 o)) 2 +
   b (floats_same (eo_ev m) (eb_ev o)) 4 +
   b (Z.eqb (eo_lumday m) (eb_lumday o) && float_same (eo_lured m) (eb_lured o)) 8 +
   b (floats_same (eo_tp m) (eb_tp o)) 16 +
   b (float_same (eo_gwauf m) (eb_gwauf o)) 32 +
   b (float_same (eo_etrel m) (eb_etrel o)) 64 +
   b (float_same (eo_trrel m) (eb_trrel o)) 128 +
   b (Nat.eqb (eo_wurz m) (eb_wurz o)) 256)%nat.

(* the cap/floor step alone: (crop?, uncapped value, observed capped value) *)
Definition cap_check (c : bool * float * float) : nat :=
  let '(crop, v, r) := c in if float_same (pot_cap crop v) r then 0%nat else 1%nat.
