(* C20Corr.v — runs GwModel at binary64 on the series/queries hermes.GetGroundWaterLevel was run on and
   on the per-day groundwater state of traced runs; compares bit for bit. *)
From Coq Require Import ZArith List Bool Floats.
From Hermes Require Import Num GwModel C01Corr.
Import ListNotations.

(* one query: (date, (error returned, level returned)) *)
Definition query_ok (s : list (Z * float)) (q : Z * (bool * float)) : bool :=
  let '(d, (err, lv)) := q in
  match level s d with
  | None => err && float_same lv PrimFloat.zero
  | Some v => negb err && float_same v lv
  end.

(* number of queries of the case on which model and code differ *)
Definition gw_check (c : list (Z * float) * list (Z * (bool * float))) : nat :=
  let '(s, qs) := c in length (filter (fun q => negb (query_ok s q)) qs).

(* sinusoid of a traced day: (TAG.Num, CONFIGURED GroundWaterPhase, g.GWPhase observed, GW, AMPL, argument
   the harness passed to math.Sin (computed from the configured phase), math.Sin's result, observed GRW):
   1 = argument differs, 2 = GRW differs, 4 = g.GWPhase is not the configured phase *)
Definition sin_check (c : float * Z * Z * float * float * float * float * float) : nat :=
  let '(tag, phase, gphase, gw, ampl, arg, s, grw) := c in
  ((if float_same (sin_arg tag (gw_phase_of_config phase)) arg then 0 else 1) +
   (if float_same (gw_sinus gw ampl s) grw then 0 else 2) +
   (if Z.eqb (gw_phase_of_config phase) gphase then 0 else 4))%nat.

(* input.go:73-75: (GRLO, GRHI, observed GW, observed AMPL) *)
Definition poly_check (c : Z * Z * float * float) : nat :=
  let '(grlo, grhi, gw, ampl) := c in
  ((if float_same (gw_mean grlo grhi) gw then 0 else 1) + (if float_same (gw_ampl grlo grhi) ampl then 0 else 2))%nat.

Fixpoint zs_same (a b : list Z) : bool :=
  match a, b with
  | [], [] => true
  | x :: a', y :: b' => Z.eqb x y && zs_same a' b'
  | _, _ => false
  end.

(* the reader: (rows of the groundwater file in order (id, date, level), requested id, GWTimestamps observed,
   GWTimeSeriesValues observed at these timestamps): 1 = timestamps are not the dates of the id's rows in file order,
   2 = a value is not the level of the last row of that date *)
Definition reader_check (c : list (Z * Z * float) * Z * list Z * list float) : nat :=
  let '(rows, id, stamps, vals) := c in
  let s := gw_read rows id in
  ((if zs_same (map fst s) stamps then 0 else 1) +
   (if floats_same (map (value_of s) stamps) vals then 0 else 2))%nat.

(* daily level of a traced run against the FILE: (rows, id, queries) *)
Definition gw_file_check (c : list (Z * Z * float) * Z * list (Z * (bool * float))) : nat :=
  let '(rows, id, qs) := c in gw_check (gw_read rows id, qs).
