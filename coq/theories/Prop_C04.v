(* Prop_C04.v — property C04 (every simulated day is driven by the weather record of exactly
   that date), stated about WeatherModel (model of hermes/weather_input.go at record level) and
   CtrlModel (calendar stepping of hermes/run.go) against the civil calendar of Calendar.v.
   Only statements, each closed by [exact lemma], and Print Assumptions.

   [civ z] = civil date of day number z (C12); [raw y d] = the values of the input line of day d
   of year y; [block raw y] / [year_recs raw y] = the lines of a complete year in the multi-year /
   per-year layouts; [normalised none corr y d r c] = c is the documented normalisation of line r
   (mm -> cm with the monthly factor, PAR = radiation / 2, wind floor 0.5, sentinel of optional
   radiation/precipitation -> 0, everything else unchanged; a present average temperature
   unchanged); [fix_minmax] = LoadYear's swap of tmin/tmax when tmin > tmax + 0.5. *)
From Coq Require Import ZArith List Bool Ascii String Floats.
From Hermes Require Import Num Util Calendar DateModel WeatherModel WeatherProofs CtrlModel CtrlProofs AlignProofs WeatherTokModel WeatherTokProofs C04Witness.
Import ListNotations.
Open Scope Z_scope.
Set Warnings "-inexact-float".

(* calendar_lockstep: when every loaded year has as many records as the civil year has days, the
   loop's (J, TAG) is the civil (year, day of the year) of BEGINN + k, for every k *)
Theorem C04_calendar_lockstep : forall ly anjahr itag beginn,
  1 <= beginn <= 72684 ->
  dy (civ beginn) = anjahr -> doy (civ beginn) = itag ->
  (forall y, anjahr <= y <= 2099 -> ly y = Some (ylen y)) ->
  forall k : nat, beginn + Z.of_nat k <= 72684 ->
    let c := cal_day ly anjahr itag k in
    let t := civ (beginn + Z.of_nat k) in
    1900 + c_j c = dy t /\ c_tag c + 1 = doy t /\ c_jtag c = ylen (dy t).
Proof. exact lockstep_lemma. Qed.

(* the start-year check compares StartYear with the civil year of BEGINN *)
Theorem C04_start_year_check : forall beginn anjahr,
  1 <= beginn <= 72684 -> start_ok beginn anjahr = (dy (civ beginn) =? anjahr).
Proof. exact start_ok_civil. Qed.

(* loader_places, multi-year layouts (ISO-date CSV; yyyyddd with derived tavg): a file of the
   complete years ya..ya+n-1 that contains the start year (it may start before it): LoadYear finds
   every year from the start year on (as many as slots were allocated) with all its days, day d
   at index d-1, normalised *)
Theorem C04_loader_places_multi : forall (T : Type) (NT : Num T) (raw : Z -> Z -> wrec T) none corr sy nslots ya n,
  ya <= sy < ya + Z.of_nat n -> 1 <= nslots ->
  exists st, read_multi none corr sy nslots (flat_map (block raw) (zrange ya n)) = Some st /\
    forall y, sy <= y < sy + Z.min (ya + Z.of_nat n - sy) nslots ->
      exists s, find_year st y = Some s /\ s_maxd s = ylen y /\ List.length (s_cells s) = 366%nat /\
                forall d, 1 <= d <= ylen y ->
                  normalised none corr y d (raw y d) (nth (Z.to_nat (d - 1)) (s_cells s) wzero).
Proof. exact @loader_places_multi_lemma. Qed.

(* loader_places, per-year layout (day-of-year column): a complete year file *)
Theorem C04_loader_places_year : forall (T : Type) (NT : Num T) (raw : Z -> Z -> wrec T) none corr y (st : store T),
  List.length st = 1%nat -> wf st ->
  exists st' s,
    wetterk none corr y (Some (year_recs raw y)) st = Some (st', true) /\
    List.length st' = 1%nat /\ wf st' /\
    find_year st' y = Some s /\ s_maxd s = ylen y /\ List.length (s_cells s) = 366%nat /\
    forall d, 1 <= d <= ylen y -> normalised none corr y d (raw y d) (nth (Z.to_nat (d - 1)) (s_cells s) wzero).
Proof. exact @loader_places_year_lemma. Qed.

(* alignment (C04), multi-year layouts: the run succeeds, simulates exactly the days
   BEGINN..ENDE, and the record consumed on day z is the normalised line of the civil date of z *)
Theorem C04_alignment_multi : forall (T : Type) (NT : Num T) (raw : Z -> Z -> wrec T) none corr penman ya n anjahr beginn itag ende,
  ya <= anjahr -> 1 <= beginn <= ende -> ende <= 72684 ->
  dy (civ beginn) = anjahr -> doy (civ beginn) = itag ->
  dy (civ ende) < ya + Z.of_nat n ->
  exists l, run_multi penman none corr (flat_map (block raw) (zrange ya n)) anjahr beginn itag ende = RunOk l /\
            List.length l = ndays beginn ende /\ consumed_ok raw none corr l beginn.
Proof. exact @alignment_multi_lemma. Qed.

(* alignment (C04), per-year layout *)
Theorem C04_alignment_peryear : forall (T : Type) (NT : Num T) (raw : Z -> Z -> wrec T) none corr penman (fs : files) anjahr beginn itag ende,
  1 <= beginn <= ende -> ende <= 72684 ->
  dy (civ beginn) = anjahr -> doy (civ beginn) = itag ->
  (forall y, anjahr <= y <= dy (civ ende) -> file_of fs y = Some (year_recs raw y)) ->
  exists l, run_peryear penman none corr fs anjahr beginn itag ende = RunOk l /\
            List.length l = ndays beginn ende /\ consumed_ok raw none corr l beginn.
Proof. exact @alignment_peryear_lemma. Qed.

(* layouts_agree: CSV and CZ readers build the same store from the same series when the CSV tavg
   column is (tmax + tmin) / 2 ... *)
Theorem C04_layouts_agree_csv_cz : forall (T : Type) (NT : Num T) none corr sy nslots (ser : list (date * wrec T)),
  (forall t r, In (t, r) ser -> w_tavg r = div (add (w_tmax r) (w_tmin r)) two) ->
  read_multi none corr sy nslots (map (fun tr => csv_rec (fst tr) (snd tr)) ser)
  = read_multi none corr sy nslots (map (fun tr => cz_rec (dy (fst tr)) (doy (fst tr)) (snd tr)) ser).
Proof. exact @layouts_agree_multi. Qed.

(* ... and any two loads of the same line (per-year vs multi-year) agree on every value the
   property fixes *)
Theorem C04_layouts_agree_values : forall (T : Type) (NT : Num T) none corr y d (r c1 c2 : wrec T),
  normalised none corr y d r c1 -> normalised none corr y d r c2 ->
  w_tmin c1 = w_tmin c2 /\ w_tmax c1 = w_tmax c2 /\ w_rh c1 = w_rh c2 /\ w_wind c1 = w_wind c2 /\
  w_rad c1 = w_rad c2 /\ w_prec c1 = w_prec c2 /\ (eqb (w_tavg r) none = false -> w_tavg c1 = w_tavg c2).
Proof. exact @normalised_agree. Qed.

(* gap_is_error at loader level: a kept line that is neither the successor day nor a 1 January
   (multi-year) / whose day-of-year column does not continue (per-year) ends the read with the
   "missing days" error; a missing year file and a year that is not in the store are errors of
   WetterK / LoadYear *)
Theorem C04_gap_is_error_multi : forall (T : Type) (NT : Num T) sy y yd (r : wrec T) rest Tv yrz (st : store T),
  sy <= y -> yd <> Tv + 1 -> yd <> 1 -> rm_loop sy ((y, yd, r) :: rest) Tv yrz false st = None.
Proof. exact @gap_is_error_multi. Qed.

Theorem C04_gap_is_error_year : forall (T : Type) Tv (r : wrec T) rest Tlast (s : slot T),
  Tv <> Tlast + 1 -> wk_loop ((Tv, r) :: rest) Tlast s = Some (s, false).
Proof. exact @gap_is_error_year. Qed.

Theorem C04_missing_file_is_loader_error : forall (T : Type) (NT : Num T) none corr year (st : store T),
  wetterk none corr year None st = Some (st, false).
Proof. exact @missing_file_is_error. Qed.

Theorem C04_uncovered_year_is_loader_error : forall (T : Type) (NT : Num T) (g : list (wrec T)) jtag (st : store T) year,
  (forall s, In s st -> s_jar s <> year) -> load_year g jtag st year = (g, jtag, false).
Proof. exact @uncovered_year_is_loader_error. Qed.

(* F9 — "uncovered_is_error" (the RUN ends in an error) is FALSE of the code: run.go drops those
   errors.  Series 1-3 Jan 1981, run 1-5 Jan 1981: success; on 4 Jan the year counter is 82, the day
   index 0 and the record of 1 Jan is consumed again *)
Theorem C04_uncovered_is_error_refuted :
  exists l, run_multi false (-99)%float [] short_series 1981 29221 1 29225 = RunOk l /\
            summary l = [(29221, 0, 81, 1%float); (29222, 1, 81, 2%float); (29223, 2, 81, 3%float);
                         (29224, 0, 82, 1%float); (29225, 1, 82, 2%float)].
Proof. exact uncovered_is_error_refuted_lemma. Qed.

Theorem C04_missing_file_is_error_refuted :
  exists l, run_peryear false (-99)%float [] [(1981, [(1, wr 1); (2, wr 2); (3, wr 3)])] 1981 29221 1 29225 = RunOk l /\
            summary l = [(29221, 0, 81, 1%float); (29222, 1, 81, 2%float); (29223, 2, 81, 3%float);
                         (29224, 0, 82, 1%float); (29225, 1, 82, 2%float)].
Proof. exact missing_file_is_error_refuted_lemma. Qed.

(* F32, F33 repaired: a 1 January is accepted only when the slot it closes holds the year before it
   (JAR = year-1) up to its 31 December (MaxYearDays = length of that year); a gap that ends on a
   1 January and a series that jumps over a whole year are "missing days" *)
Theorem C04_year_change_needs_31dec : forall (T : Type) (NT : Num T) sy y (r : wrec T) rest Tv yrz (st : store T),
  sy <= y ->
  (s_jar (slot_at st (Z.to_nat (yrz - 1))) <> y - 1 \/ maxd_at st (Z.to_nat (yrz - 1)) <> ylen (y - 1)) ->
  rm_loop sy ((y, 1, r) :: rest) Tv yrz false st = None.
Proof. exact @year_change_needs_31dec. Qed.

Theorem C04_gap_to_jan1_is_error :
  read_multi (-99)%float [] 1981 2 [(1981, 1, wr 1); (1981, 2, wr 2); (1982, 1, wr 3)] = None.
Proof. exact gap_to_jan1_is_error_lemma. Qed.

Theorem C04_missing_year_is_error :
  read_multi (-99)%float [] 1981 3 (full_year 1981 ++ full_year 1983) = None.
Proof. exact missing_year_is_error_lemma. Qed.

(* hence, for ANY sequence of records: when the reader accepts it, every year it has closed is complete
   (MaxYearDays = length of the stored year) — all years of an accepted file except the first (may
   start late) and the last (may end early) have all their days *)
Theorem C04_accepted_years_complete : forall (T : Type) (NT : Num T) sy (recs : list (mrec T)) Tv yrz (st : store T) st' yrz',
  1 <= yrz <= Z.of_nat (List.length st) -> closed_years st yrz ->
  rm_loop sy recs Tv yrz false st = Some (st', yrz') ->
  closed_years st' yrz' /\ yrz <= yrz'.
Proof. exact @accepted_years_complete. Qed.

(* gapfill_adjacent: a sentinel average temperature whose neighbour days are present becomes their
   mean — the neighbours being the civil day before and after: inside a year, from 31 December to
   1 January of the next year (F10 repaired) and from 1 January back to 31 December *)
Theorem C04_gapfill_inside : forall (T : Type) (NT : Num T) (raw : Z -> Z -> wrec T) none yrz (st : store T) j y d,
  wf st -> (yrz <= List.length st)%nat -> (j < yrz)%nat -> year_slot raw st j y -> 1 < d < ylen y ->
  eqb (w_tavg (raw y d)) none = true ->
  eqb (w_tavg (raw y (d - 1))) none = false -> eqb (w_tavg (raw y (d + 1))) none = false ->
  w_tavg (cell (replace_missing none yrz st) j (Z.to_nat (d - 1)))
    = div (add (w_tavg (raw y (d - 1))) (w_tavg (raw y (d + 1)))) two.
Proof. exact @gapfill_inside_lemma. Qed.

Theorem C04_gapfill_31dec : forall (T : Type) (NT : Num T) (raw : Z -> Z -> wrec T) none yrz (st : store T) j y,
  wf st -> (yrz <= List.length st)%nat -> (S j < yrz)%nat -> year_slot raw st j y -> year_slot raw st (S j) (y + 1) ->
  eqb (w_tavg (raw y (ylen y))) none = true ->
  eqb (w_tavg (raw y (ylen y - 1))) none = false -> eqb (w_tavg (raw (y + 1) 1)) none = false ->
  w_tavg (cell (replace_missing none yrz st) j (Z.to_nat (ylen y - 1)))
    = div (add (w_tavg (raw y (ylen y - 1))) (w_tavg (raw (y + 1) 1))) two.
Proof. exact @gapfill_31dec_lemma. Qed.

Theorem C04_gapfill_1jan : forall (T : Type) (NT : Num T) (raw : Z -> Z -> wrec T) none yrz (st : store T) j y,
  wf st -> (yrz <= List.length st)%nat -> (S j < yrz)%nat -> year_slot raw st j y -> year_slot raw st (S j) (y + 1) ->
  eqb (w_tavg (raw (y + 1) 1)) none = true ->
  eqb (w_tavg (raw y (ylen y))) none = false -> eqb (w_tavg (raw (y + 1) 2)) none = false ->
  w_tavg (cell (replace_missing none yrz st) (S j) 0)
    = div (add (w_tavg (raw y (ylen y))) (w_tavg (raw (y + 1) 2))) two.
Proof. exact @gapfill_1jan_lemma. Qed.

(* optional columns of a year file — saturation deficit, sunshine hours and (since F34) the reference
   evapotranspiration ET0 — as the model gets them for day i+1 of the year (WeatherModel.opt_year: the very pass
   of replaceMissingValues over the column; tied bit for bit to the arrays of the real WetterK in C04TokCorr):
   a present value unchanged, a sentinel between two present values their mean, a sentinel on the first or
   last record of the file 0 *)
Theorem C04_optional_value_kept : forall (T : Type) (NT : Num T) (none : T) (vals : list T) i,
  (i < List.length vals)%nat -> (List.length vals <= 366)%nat ->
  eqb (nth i vals zero) none = false -> nth i (opt_year none vals) zero = nth i vals zero.
Proof. exact @optional_keep_lemma. Qed.

Theorem C04_sunshine_value_kept : forall (T : Type) (NT : Num T) (none : T) (vals : list T) i,
  eqb (nth i vals none) none = false -> nth i (sund_year none vals) none = nth i vals none.
Proof. intros. apply sund_keep_lemma. assumption. Qed.

Theorem C04_optional_gapfill : forall (T : Type) (NT : Num T) (none : T) (vals : list T) i,
  (S (S i) < List.length vals)%nat -> (List.length vals <= 366)%nat ->
  eqb (nth (S i) vals zero) none = true ->
  eqb (nth i vals zero) none = false -> eqb (nth (S (S i)) vals zero) none = false ->
  nth (S i) (opt_year none vals) zero = div (add (nth i vals zero) (nth (S (S i)) vals zero)) two.
Proof. exact @optional_gapfill_lemma. Qed.

Theorem C04_optional_edge_zero : forall (T : Type) (NT : Num T) (none : T) (vals : list T) i,
  (i < List.length vals)%nat -> (List.length vals <= 366)%nat -> i = 0%nat \/ S i = List.length vals ->
  eqb (nth i vals zero) none = true -> nth i (opt_year none vals) zero = zero.
Proof. exact @optional_edge_lemma. Qed.

(* the monthly precipitation factor used for a day is the factor of the civil month of that day, for
   every day of leap and non-leap years (the reader's own table is compared with this model on all
   366 + 365 day numbers through the three real readers on every run: C04TokCorr.preco_sweep) *)
Theorem C04_precip_factor_is_civil_month : forall (T : Type) (NT : Num T) (corr : list T) (t : date),
  1901 <= dy t <= 2099 -> valid_date t = true ->
  corr_value corr (corr_day (dy t) (Z.to_nat (doy t - 1))) = nth (Z.to_nat (dm t - 1)) corr one.
Proof. exact @precip_factor_is_civil_month. Qed.

(* ------------------------------------------------------------------ *)
(* start / end inside a year (multi-year layouts): the series begins on day a of the start year,
   m complete years follow, it ends on day b of the year after them: every stored year is found
   with MaxYearDays = its last day, its days at their indices, normalised *)
Theorem C04_loader_places_partial : forall (T : Type) (NT : Num T) (raw : Z -> Z -> wrec T) none corr sy nslots a m b,
  1 <= a <= ylen sy -> 1 <= b <= ylen (sy + 1 + Z.of_nat m) -> Z.of_nat m + 2 <= nslots ->
  let yl := sy + 1 + Z.of_nat m in
  let lo := fun y => if y =? sy then a else 1 in
  let hi := fun y => if y =? yl then b else ylen y in
  exists st,
    read_multi none corr sy nslots
      (recs_of raw sy a (Z.to_nat (ylen sy - a + 1)) ++ flat_map (block raw) (zrange (sy + 1) m) ++ recs_of raw yl 1 (Z.to_nat b)) = Some st /\
    forall y, sy <= y <= yl ->
      exists s, find_year st y = Some s /\ s_maxd s = hi y /\ List.length (s_cells s) = 366%nat /\
                forall d, lo y <= d <= hi y ->
                  normalised none corr y d (raw y d) (nth (Z.to_nat (d - 1)) (s_cells s) wzero).
Proof. exact @loader_places_partial_lemma. Qed.

(* alignment when the series starts inside the start year, not after the first simulated day *)
Theorem C04_alignment_partial_first_year : forall (T : Type) (NT : Num T) (raw : Z -> Z -> wrec T) none corr penman (st : store T) a anjahr yE beginn itag ende,
  yE <= 2099 -> 1 <= a <= itag -> 1 <= beginn <= ende -> ende <= jan0 (yE + 1) ->
  dy (civ beginn) = anjahr -> doy (civ beginn) = itag -> anjahr <= yE ->
  (forall y, anjahr <= y <= yE ->
     exists s, find_year st y = Some s /\ s_maxd s = ylen y /\ List.length (s_cells s) = 366%nat /\
               forall d, (if y =? anjahr then a else 1) <= d <= ylen y ->
                         okrec raw none corr y d (nth (Z.to_nat (d - 1)) (s_cells s) wzero)) ->
  exists l, run_sim reload_multi penman st anjahr beginn itag ende = RunOk l /\
            List.length l = ndays beginn ende /\ consumed_ok raw none corr l beginn.
Proof. exact @alignment_store_lemma. Qed.

(* ------------------------------------------------------------------ *)
(* character level (WeatherTokModel): round trip of every well-formed line and file             *)

(* Explode inverts "tokens joined by non-empty runs of separator characters" (leading and trailing
   runs allowed) *)
Theorem C04_tok_explode_roundtrip : forall seps lead toks,
  allsep seps lead -> wf_toks seps toks -> explode seps (lead ++ print_toks toks) = map fst toks.
Proof. exact explode_print. Qed.

(* every spelling [+-]digits[.digits] | [+-].digits is read as the correctly rounded value *)
Theorem C04_tok_number_roundtrip : forall (T : Type) (NT : Num T) d,
  dlit_ok d -> dlit_small d -> parse_float (T:=T) (print_dlit d) = FOk (dval d).
Proof. exact @parse_float_print. Qed.

Theorem C04_tok_dates_roundtrip :
  (forall t, 1901 <= dy t <= 2099 -> valid_date t = true -> parse_iso (print_iso t) = Some t) /\
  (forall y d, 1901 <= y <= 2099 -> 1 <= d <= ylen y -> parse_yyyyddd (print_doy y d) = Some (y, d)).
Proof. exact (conj parse_iso_print parse_yyyyddd_print). Qed.

(* per-year layout: a line of ten (blank-padded) value tokens and the day-of-year token, any
   further tokens, separators , or ; in any runs: the loop stores exactly these values *)
Theorem C04_tok_year_line_roundtrip : forall (T : Type) (NT : Num T) lead toks (vals : list (str * dlit * str)) p1 jd p2 Tlast (s : slot T),
  allsep SEPS_YEAR lead -> wf_toks SEPS_YEAR toks ->
  List.length vals = 10%nat -> Forall padded_ok vals ->
  firstn 10 (map fst toks) = map padded vals ->
  nth_error (map fst toks) 10 = Some (p1 ++ jd ++ p2) ->
  allspace p1 -> allspace p2 -> jd <> [] -> alldig jd ->
  dnum 0 jd = Tlast + 1 -> 0 <= Tlast -> Tlast + 1 <= 366 ->
  year_line (lead ++ print_toks toks) Tlast s
  = TOk (Tlast + 1, put_slot s (s_jar s) (Tlast + 1) (year_rec (map (fun x => dval (snd (fst x))) vals))).
Proof. exact @year_line_print. Qed.

(* CSV layout: the eight standard columns in any order among any further columns *)
Theorem C04_tok_csv_line_roundtrip : forall (T : Type) (NT : Num T) (none : T) sy lead toks t id itmin itavg itmax iprec irad iwind irh
      dtmin dtavg dtmax dprec drad dwind drh,
  allsep SEPS_CSV lead -> wf_toks SEPS_CSV toks ->
  1901 <= dy t <= 2099 -> valid_date t = true -> sy <= dy t ->
  nth_error (map fst toks) id = Some (print_iso t) ->
  nth_error (map fst toks) itmin = Some (print_dlit dtmin) -> nth_error (map fst toks) itavg = Some (print_dlit dtavg) ->
  nth_error (map fst toks) itmax = Some (print_dlit dtmax) -> nth_error (map fst toks) iprec = Some (print_dlit dprec) ->
  nth_error (map fst toks) irad = Some (print_dlit drad) -> nth_error (map fst toks) iwind = Some (print_dlit dwind) ->
  nth_error (map fst toks) irh = Some (print_dlit drh) ->
  Forall (fun d => dlit_ok d /\ dlit_small d) [dtmin; dtavg; dtmax; dprec; drad; dwind; drh] ->
  csv_line none (csv_header id itmin itavg itmax iprec irad iwind irh) sy (lead ++ print_toks toks)
  = IRec (dy t, doy t, mkw (dval dtavg) (dval dtmin) (dval dtmax) (dval drh) (dval drad) (dval dwind) (dval dprec)) None.
Proof. exact @csv_line_print. Qed.

Theorem C04_tok_cz_line_roundtrip : forall (T : Type) (NT : Num T) (none : T) sy lead toks y d id itmin itmax irad iprec iwind irh dtmin dtmax drad dprec dwind drh,
  allsep SEPS_CZ lead -> wf_toks SEPS_CZ toks ->
  1901 <= y <= 2099 -> 1 <= d <= ylen y -> sy <= y ->
  nth_error (map fst toks) id = Some (print_doy y d) ->
  nth_error (map fst toks) itmin = Some (print_dlit dtmin) -> nth_error (map fst toks) itmax = Some (print_dlit dtmax) ->
  nth_error (map fst toks) irad = Some (print_dlit drad) -> nth_error (map fst toks) iprec = Some (print_dlit dprec) ->
  nth_error (map fst toks) iwind = Some (print_dlit dwind) -> nth_error (map fst toks) irh = Some (print_dlit drh) ->
  Forall (fun d => dlit_ok d /\ dlit_small d) [dtmin; dtmax; drad; dprec; dwind; drh] ->
  cz_line none (cz_header id itmin itmax irad iprec iwind irh) sy (lead ++ print_toks toks)
  = IRec (cz_rec y d (mkw zero (dval dtmin) (dval dtmax) (dval drh) (dval drad) (dval dwind) (dval dprec))) None.
Proof. exact @cz_line_print. Qed.

(* files: lines ended by LF or CRLF (last line also without) are scanned back ... *)
Theorem C04_tok_scan_lines : forall lines eol,
  Forall line_ok lines -> eol_ok eol ->
  scan_lines (List.concat (map (fun l => l ++ eol) lines)) = lines /\
  forall last, line_ok last -> last <> [] ->
    scan_lines (List.concat (map (fun l => l ++ eol) lines) ++ last) = lines ++ [last].
Proof. exact scan_lines_both. Qed.

(* ... and a whole per-year file (n <> 3 header lines) / multi-year file of well-formed lines is
   read exactly as the record-level readers read its records *)
Theorem C04_tok_year_file : forall (T : Type) (NT : Num T) none corr year hdr body (recs : list (Z * wrec T)) eol (st : store T),
  Z.of_nat (List.length hdr) <> 3 ->
  Forall line_ok (hdr ++ body) -> eol_ok eol ->
  Forall2 (fun l x => line_spec l (fst x) (snd x)) body recs ->
  wetterk_text none corr (Z.of_nat (List.length hdr)) year (Some (List.concat (map (fun l => l ++ eol) (hdr ++ body)))) st
  = match wetterk none corr year (Some recs) st with
    | Some (st', true) => TOk (st', no_meta)
    | Some (st', false) => TErr (st', no_meta)
    | None => TPanic
    end.
Proof. exact @wetterk_text_print. Qed.

Theorem C04_tok_multi_file : forall (T : Type) (NT : Num T) none cz corr numheader sy nslots hl hdr body (recs : list (mrec T)) eol,
  numheader = Z.of_nat (List.length hdr) + 1 -> (cz = true \/ numheader <> 3) ->
  Forall line_ok (hl :: hdr ++ body) -> eol_ok eol -> 0 <= nslots ->
  map (if cz then cz_line none (read_header hl) sy else csv_line none (read_header hl) sy) body = map (item_of sy) recs ->
  match multi_text none cz corr numheader sy nslots (Some (List.concat (map (fun l => l ++ eol) (hl :: hdr ++ body)))),
        read_multi none corr sy nslots recs with
  | TOk (st1, m, _), Some st2 => st1 = st2 /\ m = no_meta
  | TErr _, None => True
  | _, _ => False
  end.
Proof. exact @multi_text_print. Qed.

(* ------------------------------------------------------------------ *)
(* malformed lines (outside the property's quantifier; stated so that the limit is visible)      *)

(* a field with a character no float spelling uses, or an empty text, is a strconv error *)
Theorem C04_tok_nonnumeric_is_error : forall (T : Type) (NT : Num T) (t : str),
  t <> [] -> existsb (fun c => negb (float_char c)) t = true -> parse_float (T:=T) t = FErr.
Proof. exact @nonnumeric_err. Qed.

(* per-year layout: fewer than 11 tokens -> index panic; a non-numeric value column never yields a
   record (log.Fatal) *)
Theorem C04_tok_year_too_few : forall (T : Type) (NT : Num T) line Tlast (s : slot T),
  (List.length (explode SEPS_YEAR line) <= 10)%nat -> year_line line Tlast s = TPanic.
Proof. exact @year_line_too_few. Qed.

Theorem C04_tok_year_nonnumeric : forall (T : Type) (NT : Num T) line Tlast (s : slot T) t i,
  (i < 10)%nat -> nth_error (explode SEPS_YEAR line) i = Some t -> parse_float (T:=T) (trim_space t) = FErr ->
  forall x, year_line line Tlast s <> TOk x.
Proof. exact @year_line_nonnumeric. Qed.

(* multi-year layouts: a required column index beyond the tokens / a non-numeric token in a
   required column never yields a record *)
Theorem C04_tok_csv_too_few : forall (T : Type) (NT : Num T) (none : T) h sy line i,
  In i [col (h_wind h); col (h_prec h); col (h_tmax h); col (h_tmin h); col (h_tavg h); col (h_rh h)] ->
  (List.length (explode SEPS_CSV line) <= i)%nat ->
  forall r c, csv_line none h sy line <> IRec r c.
Proof. exact @csv_line_too_few. Qed.

Theorem C04_tok_csv_nonnumeric : forall (T : Type) (NT : Num T) (none : T) h sy line i t,
  In i [col (h_wind h); col (h_prec h); col (h_tmax h); col (h_tmin h); col (h_tavg h); col (h_rh h)] ->
  nth_error (explode SEPS_CSV line) i = Some t -> parse_float (T:=T) t = FErr ->
  forall r c, csv_line none h sy line <> IRec r c.
Proof. exact @csv_line_nonnumeric. Qed.

(* an EMPTY field leaves no token: the line explodes to the other tokens, the later ones one
   position to the left *)
Theorem C04_tok_empty_field_vanishes : forall seps lead a t s b,
  allsep seps lead -> wf_toks seps (a ++ (t, s) :: b) -> s <> [] ->
  explode seps (lead ++ print_toks a ++ s ++ print_toks b) = map fst a ++ map fst b.
Proof. exact explode_drops_empty. Qed.

(* CHARACTERISATION: the CSV reader accepts a line as a record exactly when every required header
   index holds a token strconv accepts; the record is made of the tokens at those indices.  It
   panics exactly when a required index is beyond the tokens.  Hence a line that lost a field is a
   SHIFTED record iff enough numeric tokens remain, an index panic / parse error otherwise. *)
Theorem C04_tok_csv_line_characterised : forall (T : Type) (NT : Num T) (none : T) sy line id itmin itavg itmax iprec irad iwind irh dt t,
  let toks := explode SEPS_CSV line in
  let h := csv_header id itmin itavg itmax iprec irad iwind irh in
  nth_error toks id = Some dt -> parse_iso dt = Some t -> sy <= dy t ->
  (forall vtmin vtavg vtmax vprec vrad vwind vrh,
     csv_line none h sy line = IRec (dy t, doy t, mkw vtavg vtmin vtmax vrh vrad vwind vprec) None <->
     (pfield toks iwind = PV vwind /\ pfield toks iprec = PV vprec /\ pfield toks irad = PV vrad /\
      pfield toks itmax = PV vtmax /\ pfield toks itmin = PV vtmin /\ pfield toks itavg = PV vtavg /\
      pfield toks irh = PV vrh)) /\
  (csv_line none h sy line = IPanic <->
     exists i, In i [iwind; iprec; irad; itmax; itmin; itavg; irh] /\ (List.length toks <= i)%nat).
Proof. exact @csv_line_characterised. Qed.

(* a line whose date text does not parse is skipped without an error *)
Theorem C04_tok_bad_date_skipped : forall (T : Type) (NT : Num T) (none : T) h sy line dt,
  nth_error (explode SEPS_CSV line) (col (h_date_iso h)) = Some dt -> parse_iso dt = None ->
  csv_line none h sy line = ISkip.
Proof. exact @csv_bad_date_skipped. Qed.

(* witnesses: empty field with a surplus column / decimal comma / CZ with CO2 column are read as
   shifted records; without surplus token the CSV line is an index panic; the per-year layout
   panics resp. ends in log.Fatal *)
Theorem C04_tok_malformed_line_witnesses :
  csv_line (-99)%float csv_hdr9 1983 (lstr_of "1983-01-07,12.8,,23.2,1.5,8.0,2.0,51.0,0.6"%string)
    = IRec (1983, 7, mkw 23.2%float 12.8%float 1.5%float 0.6%float 2.0%float 51.0%float 8.0%float) None /\
  csv_line (-99)%float (read_header (lstr_of "iso-date,tmin,tavg,tmax,precip,globrad,wind,relhumid"%string)) 1983
           (lstr_of "1983-01-07,12.8,,23.2,1.5,8.0,2.0,51.0"%string) = IPanic /\
  csv_line (-99)%float (read_header (lstr_of "iso-date;tmin;tavg;tmax;precip;globrad;wind;relhumid"%string)) 1983
           (lstr_of "1983-01-28;-8,6;-3.1;1.7;0.0;5.5;2.2;61.0"%string)
    = IRec (1983, 28, mkw 6%float (-8)%float (-3.1)%float 2.2%float 0.0%float 5.5%float 1.7%float) None /\
  cz_line (-99)%float (read_header (lstr_of "@YYYYJJJ;TMIN;TMAX;RAD;PREC;WIND;RH;CO2"%string)) 1979
          (lstr_of "1979123;2.9;;12.4;0.0;3.1;88.5;350"%string)
    = IRec (cz_rec 1979 123 (mkw 0%float 2.9%float 12.4%float 350%float 0.0%float 88.5%float 3.1%float)) None /\
  year_line (T:=float) (lstr_of "4.1;1;;-99;90;0.2;3.1;0;64;1;1"%string) 0 empty_slot = TPanic /\
  year_line (T:=float) (lstr_of "4.1;1;5.6;n/a;90;0.2;3.1;0;64;1;1"%string) 0 empty_slot = TFatal.
Proof.
  exact (conj empty_field_shifted_lemma (conj empty_field_panic_lemma (conj decimal_comma_shifted_lemma
        (conj cz_empty_field_shifted_lemma (conj year_empty_field_panic_lemma year_nonnumeric_fatal_lemma))))).
Qed.

(* non-vacuity: the hypothesis bundle of alignment is satisfiable, and a concrete complete run of
   the binary64 instance consumes the line of the right day across a year change with a leap day:
   file 1983..1985, run 28 Feb 1984 .. 2 Jan 1985 *)
Definition nv_raw (y d : Z) : wrec float := wr (F.of_Z (y * 1000 + d)).

Example C04_nonvacuous :
  dy (civ 30374) = 1984 /\ doy (civ 30374) = 59 /\ dy (civ 30683) = 1985 /\
  exists l, run_multi true (-99)%float [] (flat_map (block nv_raw) (zrange 1983 3)) 1984 30374 59 30683 = RunOk l /\
            List.length l = 310%nat /\
            nth_error (summary l) 1 = Some (30375, 59, 84, 1984060%float) /\     (* 29 Feb 1984 *)
            nth_error (summary l) 307 = Some (30681, 365, 84, 1984366%float) /\  (* 31 Dec 1984 *)
            nth_error (summary l) 308 = Some (30682, 0, 85, 1985001%float).      (* 1 Jan 1985 *)
Proof.
  split; [vm_compute; reflexivity|]. split; [vm_compute; reflexivity|]. split; [vm_compute; reflexivity|].
  eexists. split; [vm_compute; reflexivity|]. vm_compute. repeat split; reflexivity.
Qed.

Print Assumptions C04_calendar_lockstep.
Print Assumptions C04_start_year_check.
Print Assumptions C04_loader_places_multi.
Print Assumptions C04_loader_places_year.
Print Assumptions C04_alignment_multi.
Print Assumptions C04_alignment_peryear.
Print Assumptions C04_layouts_agree_csv_cz.
Print Assumptions C04_layouts_agree_values.
Print Assumptions C04_gap_is_error_multi.
Print Assumptions C04_gap_is_error_year.
Print Assumptions C04_missing_file_is_loader_error.
Print Assumptions C04_uncovered_year_is_loader_error.
Print Assumptions C04_uncovered_is_error_refuted.
Print Assumptions C04_missing_file_is_error_refuted.
Print Assumptions C04_year_change_needs_31dec.
Print Assumptions C04_gap_to_jan1_is_error.
Print Assumptions C04_accepted_years_complete.
Print Assumptions C04_missing_year_is_error.
Print Assumptions C04_gapfill_inside.
Print Assumptions C04_gapfill_31dec.
Print Assumptions C04_gapfill_1jan.
Print Assumptions C04_optional_value_kept.
Print Assumptions C04_optional_gapfill.
Print Assumptions C04_sunshine_value_kept.
Print Assumptions C04_optional_edge_zero.
Print Assumptions C04_loader_places_partial.
Print Assumptions C04_alignment_partial_first_year.
Print Assumptions C04_tok_explode_roundtrip.
Print Assumptions C04_tok_number_roundtrip.
Print Assumptions C04_tok_dates_roundtrip.
Print Assumptions C04_tok_year_line_roundtrip.
Print Assumptions C04_tok_csv_line_roundtrip.
Print Assumptions C04_tok_cz_line_roundtrip.
Print Assumptions C04_tok_scan_lines.
Print Assumptions C04_tok_year_file.
Print Assumptions C04_tok_multi_file.
Print Assumptions C04_tok_nonnumeric_is_error.
Print Assumptions C04_tok_year_too_few.
Print Assumptions C04_tok_year_nonnumeric.
Print Assumptions C04_tok_csv_too_few.
Print Assumptions C04_tok_csv_nonnumeric.
Print Assumptions C04_tok_empty_field_vanishes.
Print Assumptions C04_tok_csv_line_characterised.
Print Assumptions C04_tok_bad_date_skipped.
Print Assumptions C04_tok_malformed_line_witnesses.
Print Assumptions C04_precip_factor_is_civil_month.
