(* Prop_C04.v — property C04 (every simulated day is driven by the weather record of exactly
   that date), stated about WeatherModel (model of hermes/weather_input.go at record level) and
   CtrlModel (calendar stepping of hermes/run.go) against the civil calendar of Calendar.v.
   Only statements, each closed by [exact lemma], and Print Assumptions.

   [civ z] = civil date of day number z (C12); [raw y d] = the values of the input line of day d
   of year y; [block raw y] / [year_recs raw y] = the lines of a complete year in the multi-year /
   per-year layouts; [normalised none corr y d r c] = c is the documented normalisation of line r
   (mm -> cm with the monthly factor, PAR = radiation / 2, wind floor 0.5, sentinel of optional
   radiation/precipitation -> 0, everything else unchanged; a present average temperature
   unchanged); [fix_minmax] = LoadYear's swap of tmin/tmax when tmin > tmax + 0.5. *)
From Coq Require Import ZArith List Bool Floats.
From Hermes Require Import Num Util Calendar DateModel WeatherModel WeatherProofs CtrlModel CtrlProofs AlignProofs C04Witness.
Import ListNotations.
Open Scope Z_scope.

(* calendar_lockstep: when every loaded year has as many records as the civil year has days, the
   loop's (J, TAG) is the civil (year, day of the year) of BEGINN + k, for every k *)
Theorem C04_calendar_lockstep : forall ly anjahr itag beginn,
  1 <= beginn <= 72684 ->
  dy (civ beginn) = anjahr -> doy (civ beginn) = itag ->
  (forall y, anjahr <= y <= 2099 -> ly y = Some (ylen y)) ->
  forall k : nat, beginn + Z.of_nat k <= 72684 ->
    let c := cal_day ly anjahr itag k in
    let t := civ (beginn + Z.of_nat k) in
    1900 + c_j c = dy t /\ c_tag c + 1 = doy t /\ c_jtag c = ylen (dy t).
Proof. exact lockstep_lemma. Qed.

(* the start-year check compares StartYear with the civil year of BEGINN *)
Theorem C04_start_year_check : forall beginn anjahr,
  1 <= beginn <= 72684 -> start_ok beginn anjahr = (dy (civ beginn) =? anjahr).
Proof. exact start_ok_civil. Qed.

(* loader_places, multi-year layouts (ISO-date CSV; yyyyddd with derived tavg): a file of the
   complete years ya..ya+n-1 that contains the start year (it may start before it): LoadYear finds
   every year from the start year on (as many as slots were allocated) with all its days, day d
   at index d-1, normalised *)
Theorem C04_loader_places_multi : forall (T : Type) (NT : Num T) (raw : Z -> Z -> wrec T) none corr sy nslots ya n,
  ya <= sy < ya + Z.of_nat n -> 1 <= nslots ->
  exists st, read_multi none corr sy nslots (flat_map (block raw) (zrange ya n)) = Some st /\
    forall y, sy <= y < sy + Z.min (ya + Z.of_nat n - sy) nslots ->
      exists s, find_year st y = Some s /\ s_maxd s = ylen y /\ length (s_cells s) = 366%nat /\
                forall d, 1 <= d <= ylen y ->
                  normalised none corr y d (raw y d) (nth (Z.to_nat (d - 1)) (s_cells s) wzero).
Proof. exact @loader_places_multi_lemma. Qed.

(* loader_places, per-year layout (day-of-year column): a complete year file *)
Theorem C04_loader_places_year : forall (T : Type) (NT : Num T) (raw : Z -> Z -> wrec T) none corr y (st : store T),
  length st = 1%nat -> wf st ->
  exists st' s,
    wetterk none corr y (Some (year_recs raw y)) st = Some (st', true) /\
    length st' = 1%nat /\ wf st' /\
    find_year st' y = Some s /\ s_maxd s = ylen y /\ length (s_cells s) = 366%nat /\
    forall d, 1 <= d <= ylen y -> normalised none corr y d (raw y d) (nth (Z.to_nat (d - 1)) (s_cells s) wzero).
Proof. exact @loader_places_year_lemma. Qed.

(* alignment (C04), multi-year layouts: the run succeeds, simulates exactly the days
   BEGINN..ENDE, and the record consumed on day z is the normalised line of the civil date of z *)
Theorem C04_alignment_multi : forall (T : Type) (NT : Num T) (raw : Z -> Z -> wrec T) none corr penman ya n anjahr beginn itag ende,
  ya <= anjahr -> 1 <= beginn <= ende -> ende <= 72684 ->
  dy (civ beginn) = anjahr -> doy (civ beginn) = itag ->
  dy (civ ende) < ya + Z.of_nat n ->
  exists l, run_multi penman none corr (flat_map (block raw) (zrange ya n)) anjahr beginn itag ende = RunOk l /\
            length l = ndays beginn ende /\ consumed_ok raw none corr l beginn.
Proof. exact @alignment_multi_lemma. Qed.

(* alignment (C04), per-year layout *)
Theorem C04_alignment_peryear : forall (T : Type) (NT : Num T) (raw : Z -> Z -> wrec T) none corr penman (fs : files) anjahr beginn itag ende,
  1 <= beginn <= ende -> ende <= 72684 ->
  dy (civ beginn) = anjahr -> doy (civ beginn) = itag ->
  (forall y, anjahr <= y <= dy (civ ende) -> file_of fs y = Some (year_recs raw y)) ->
  exists l, run_peryear penman none corr fs anjahr beginn itag ende = RunOk l /\
            length l = ndays beginn ende /\ consumed_ok raw none corr l beginn.
Proof. exact @alignment_peryear_lemma. Qed.

(* layouts_agree: CSV and CZ readers build the same store from the same series when the CSV tavg
   column is (tmax + tmin) / 2 ... *)
Theorem C04_layouts_agree_csv_cz : forall (T : Type) (NT : Num T) none corr sy nslots (ser : list (date * wrec T)),
  (forall t r, In (t, r) ser -> w_tavg r = div (add (w_tmax r) (w_tmin r)) two) ->
  read_multi none corr sy nslots (map (fun tr => csv_rec (fst tr) (snd tr)) ser)
  = read_multi none corr sy nslots (map (fun tr => cz_rec (dy (fst tr)) (doy (fst tr)) (snd tr)) ser).
Proof. exact @layouts_agree_multi. Qed.

(* ... and any two loads of the same line (per-year vs multi-year) agree on every value the
   property fixes *)
Theorem C04_layouts_agree_values : forall (T : Type) (NT : Num T) none corr y d (r c1 c2 : wrec T),
  normalised none corr y d r c1 -> normalised none corr y d r c2 ->
  w_tmin c1 = w_tmin c2 /\ w_tmax c1 = w_tmax c2 /\ w_rh c1 = w_rh c2 /\ w_wind c1 = w_wind c2 /\
  w_rad c1 = w_rad c2 /\ w_prec c1 = w_prec c2 /\ (eqb (w_tavg r) none = false -> w_tavg c1 = w_tavg c2).
Proof. exact @normalised_agree. Qed.

(* gap_is_error at loader level: a kept line that is neither the successor day nor a 1 January
   (multi-year) / whose day-of-year column does not continue (per-year) ends the read with the
   "missing days" error; a missing year file and a year that is not in the store are errors of
   WetterK / LoadYear *)
Theorem C04_gap_is_error_multi : forall (T : Type) (NT : Num T) sy y yd (r : wrec T) rest Tv yrz (st : store T),
  sy <= y -> yd <> Tv + 1 -> yd <> 1 -> rm_loop sy ((y, yd, r) :: rest) Tv yrz false st = None.
Proof. exact @gap_is_error_multi. Qed.

Theorem C04_gap_is_error_year : forall (T : Type) Tv (r : wrec T) rest Tlast (s : slot T),
  Tv <> Tlast + 1 -> wk_loop ((Tv, r) :: rest) Tlast s = Some (s, false).
Proof. exact @gap_is_error_year. Qed.

Theorem C04_missing_file_is_loader_error : forall (T : Type) (NT : Num T) none corr year (st : store T),
  wetterk none corr year None st = Some (st, false).
Proof. exact @missing_file_is_error. Qed.

Theorem C04_uncovered_year_is_loader_error : forall (T : Type) (NT : Num T) (g : list (wrec T)) jtag (st : store T) year,
  (forall s, In s st -> s_jar s <> year) -> load_year g jtag st year = (g, jtag, false).
Proof. exact @uncovered_year_is_loader_error. Qed.

(* F9 — "uncovered_is_error" (the RUN ends in an error) is FALSE of the code: run.go drops those
   errors.  Series 1-3 Jan 1981, run 1-5 Jan 1981: success; on 4 Jan the year counter is 82, the day
   index 0 and the record of 1 Jan is consumed again *)
Theorem C04_uncovered_is_error_refuted :
  exists l, run_multi false (-99)%float [] short_series 1981 29221 1 29225 = RunOk l /\
            summary l = [(29221, 0, 81, 1%float); (29222, 1, 81, 2%float); (29223, 2, 81, 3%float);
                         (29224, 0, 82, 1%float); (29225, 1, 82, 2%float)].
Proof. exact uncovered_is_error_refuted_lemma. Qed.

Theorem C04_missing_file_is_error_refuted :
  exists l, run_peryear false (-99)%float [] [(1981, [(1, wr 1); (2, wr 2); (3, wr 3)])] 1981 29221 1 29225 = RunOk l /\
            summary l = [(29221, 0, 81, 1%float); (29222, 1, 81, 2%float); (29223, 2, 81, 3%float);
                         (29224, 0, 82, 1%float); (29225, 1, 82, 2%float)].
Proof. exact missing_file_is_error_refuted_lemma. Qed.

(* the multi-year readers accept a gap that ends on a 1 January (short year stored) *)
Theorem C04_gap_to_jan1_is_error_refuted :
  exists st, read_multi (-99)%float [] 1981 2 [(1981, 1, wr 1); (1981, 2, wr 2); (1982, 1, wr 3)] = Some st /\
             maxd_at st 0 = 2 /\ s_jar (slot_at st 1) = 1982.
Proof. exact gap_to_jan1_is_error_refuted_lemma. Qed.

(* gapfill_adjacent: a sentinel average temperature whose neighbour days are present becomes their
   mean — the neighbours being the civil day before and after: inside a year, from 31 December to
   1 January of the next year (F10 repaired) and from 1 January back to 31 December *)
Theorem C04_gapfill_inside : forall (T : Type) (NT : Num T) (raw : Z -> Z -> wrec T) none yrz (st : store T) j y d,
  wf st -> (yrz <= length st)%nat -> (j < yrz)%nat -> year_slot raw st j y -> 1 < d < ylen y ->
  eqb (w_tavg (raw y d)) none = true ->
  eqb (w_tavg (raw y (d - 1))) none = false -> eqb (w_tavg (raw y (d + 1))) none = false ->
  w_tavg (cell (replace_missing none yrz st) j (Z.to_nat (d - 1)))
    = div (add (w_tavg (raw y (d - 1))) (w_tavg (raw y (d + 1)))) two.
Proof. exact @gapfill_inside_lemma. Qed.

Theorem C04_gapfill_31dec : forall (T : Type) (NT : Num T) (raw : Z -> Z -> wrec T) none yrz (st : store T) j y,
  wf st -> (yrz <= length st)%nat -> (S j < yrz)%nat -> year_slot raw st j y -> year_slot raw st (S j) (y + 1) ->
  eqb (w_tavg (raw y (ylen y))) none = true ->
  eqb (w_tavg (raw y (ylen y - 1))) none = false -> eqb (w_tavg (raw (y + 1) 1)) none = false ->
  w_tavg (cell (replace_missing none yrz st) j (Z.to_nat (ylen y - 1)))
    = div (add (w_tavg (raw y (ylen y - 1))) (w_tavg (raw (y + 1) 1))) two.
Proof. exact @gapfill_31dec_lemma. Qed.

Theorem C04_gapfill_1jan : forall (T : Type) (NT : Num T) (raw : Z -> Z -> wrec T) none yrz (st : store T) j y,
  wf st -> (yrz <= length st)%nat -> (S j < yrz)%nat -> year_slot raw st j y -> year_slot raw st (S j) (y + 1) ->
  eqb (w_tavg (raw (y + 1) 1)) none = true ->
  eqb (w_tavg (raw y (ylen y))) none = false -> eqb (w_tavg (raw (y + 1) 2)) none = false ->
  w_tavg (cell (replace_missing none yrz st) (S j) 0)
    = div (add (w_tavg (raw y (ylen y))) (w_tavg (raw (y + 1) 2))) two.
Proof. exact @gapfill_1jan_lemma. Qed.

(* non-vacuity: the hypothesis bundle of alignment is satisfiable, and a concrete complete run of
   the binary64 instance consumes the line of the right day across a year change with a leap day:
   file 1983..1985, run 28 Feb 1984 .. 2 Jan 1985 *)
Definition nv_raw (y d : Z) : wrec float := wr (F.of_Z (y * 1000 + d)).

Example C04_nonvacuous :
  dy (civ 30374) = 1984 /\ doy (civ 30374) = 59 /\ dy (civ 30683) = 1985 /\
  exists l, run_multi true (-99)%float [] (flat_map (block nv_raw) (zrange 1983 3)) 1984 30374 59 30683 = RunOk l /\
            length l = 310%nat /\
            nth_error (summary l) 1 = Some (30375, 59, 84, 1984060%float) /\     (* 29 Feb 1984 *)
            nth_error (summary l) 307 = Some (30681, 365, 84, 1984366%float) /\  (* 31 Dec 1984 *)
            nth_error (summary l) 308 = Some (30682, 0, 85, 1985001%float).      (* 1 Jan 1985 *)
Proof.
  split; [vm_compute; reflexivity|]. split; [vm_compute; reflexivity|]. split; [vm_compute; reflexivity|].
  eexists. split; [vm_compute; reflexivity|]. vm_compute. repeat split; reflexivity.
Qed.

Print Assumptions C04_calendar_lockstep.
Print Assumptions C04_start_year_check.
Print Assumptions C04_loader_places_multi.
Print Assumptions C04_loader_places_year.
Print Assumptions C04_alignment_multi.
Print Assumptions C04_alignment_peryear.
Print Assumptions C04_layouts_agree_csv_cz.
Print Assumptions C04_layouts_agree_values.
Print Assumptions C04_gap_is_error_multi.
Print Assumptions C04_gap_is_error_year.
Print Assumptions C04_missing_file_is_loader_error.
Print Assumptions C04_uncovered_year_is_loader_error.
Print Assumptions C04_uncovered_is_error_refuted.
Print Assumptions C04_missing_file_is_error_refuted.
Print Assumptions C04_gap_to_jan1_is_error_refuted.
Print Assumptions C04_gapfill_inside.
Print Assumptions C04_gapfill_31dec.
Print Assumptions C04_gapfill_1jan.
