(* DayWaterModel.v — COMPOSED model of the water path of one simulated day (hermes/run.go:452-651),
   written once over [Num]: run on binary64 for the whole-day tie (DayWaterCorr.v), read over R by
   the day-level theorems of property C01 (Prop_C01b.v).  No proofs here.  It only composes the
   kernels that are tied to the code one by one — [evatra_struct] (EvatraModel), [zsr_of] / [wdt_of] /
   [steps_of] / [water_iter] / [water_counters_step] (WaterModel) — with the glue of the day loop:

     run.go:454-456   irrigation due today is added to the day's rain (REGEN[TAG] += BREG/10)
     water.go:22-27   Evatra's start-of-day copy WG[0] := WG[1], Q1[1..N] := 0
     water.go:28-661  Evatra (structural part; potential ET, exp values stay oracle inputs)
     run.go:499-529   sub-step choice from FLUSS0, REGEN', W, WG[0]
     run.go:581-586   STEPS / WDT
     run.go:588-641   STEPS times Water(WDT, SUBD): sub-step 1 starts from Evatra's TP, EV, NFK, FLUSS0,
                      GWAUF, ETA and WG[0]; later sub-steps from the previous one's WG[1], TP, EV, Q1.

   What runs between the Water calls and what of it Water reads later (read from the source):
     * PhytoOut (crop.go) writes none of TP, WG, EV, NFK, W, WMIN, GRW, FLUSS0, ETA, Q1, GWAUF; on the
       sowing day it zeroes the season counters ETAG, TRAG, PERG (crop.go:68-70).
     * Nitro of sub-step 1 zeroes the same three counters at harvest (nitro.go:428-430) and advances
       the crop index AKF (nitro.go:461), which changes "zeit > SAAT[AKF]" for the later sub-steps.
       Both are decisions of unmodelled code: they enter as the explicit inputs [di_season_reset],
       [di_after_sow_later]; they touch only the season counters, never the water state.
     * nmove (every sub-step) overwrites Q1[0] := FLUSS0*wdt (nitro.go:734).  Water reads Q1[0] only to
       keep it in its own Q1[0] when FLUSS0 = 0; no other output depends on it, so the day model leaves
       [water_iter] as it is and its outputs do not include Q1[0] (the tie requires OUTN >= 1).
     * the automatic sowing block (run.go:539-578) may set SAAT[AKF] after Evatra: [di_after_sow] is
       the value of "zeit > SAAT[AKF]" when the sub-step loop starts.
   The measurement overwrite, the groundwater-change overwrite of WG[1] and the automatic irrigation
   decision all happen BEFORE the irrigation block, so they are part of the day's start state. *)
From Coq Require Import ZArith List Bool.
From Hermes Require Import Num WaterModel EvatraModel.
Import ListNotations.
Local Open Scope num_scope.

Section DayWater.
  Context {T : Type} {NT : Num T}.

  Record day_in := {
    (* run.go:350,454-456 *)
    di_rain : T;            (* REGEN[TAG] before the irrigation block (cm) *)
    di_irr_due : bool;      (* ZEIT == ZTBR[NBR-1] *)
    di_breg : T;            (* BREG[NBR-1] (mm) *)
    (* state at the start of the day *)
    di_wg1 : list T;        (* WG[1][0..N-1]: end of the previous day / after the overwrites *)
    di_ev_last : T;         (* EV[N]: not written by Evatra, read by Water *)
    di_q10 : T;             (* Q1[0]: not reset by Evatra *)
    di_cnt : water_counters (T:=T);
    (* Evatra: oracle inputs and state, as in [evatra_in] (ei_regen and ei_wg0 are computed here) *)
    di_crop : bool; di_verdu : T; di_elai : T; di_expw : list T;
    di_wmin : list T; di_w : list T; di_wnor : list T; di_porges : list T;
    di_wurz : nat; di_wudich : list T; di_grw : T;
    di_lukrit : T; di_lumday : Z; di_lured : T; di_etrel : T; di_trrel : T;
    (* Water *)
    di_draidep : nat; di_draifak : T; di_outn : nat; di_caps : list T;
    di_after_sow : bool;        (* zeit > SAAT[AKF] at sub-step 1 (after the automatic sowing block) *)
    di_after_sow_later : bool;  (* the same after Nitro of sub-step 1 (harvest advances AKF) *)
    di_season_reset : bool;     (* ETAG, TRAG, PERG zeroed between Water 1 and Water 2 (sowing / harvest) *)
  }.

  Record day_out := {
    do_regen : T;                          (* REGEN[TAG] as Evatra and the sub-step choice read it *)
    do_ev : evatra_out (T:=T);
    do_steps : Z; do_wdt : T;
    do_outs : list (water_out (T:=T));     (* one per sub-step *)
    do_wg1 : list T;                       (* WG[1][0..N] at the end of the day *)
    do_cnt : water_counters (T:=T);
  }.

  (* run.go:454-456: the addition is executed only when an irrigation is due *)
  Definition irrigation_of (x : day_in) : T := if di_irr_due x then di_breg x / ten else zero.
  Definition day_regen (x : day_in) : T := if di_irr_due x then di_rain x + di_breg x / ten else di_rain x.

  (* water.go:22-27 + the argument list of Evatra *)
  Definition evatra_in_of (x : day_in) (regen : T) : evatra_in (T:=T) :=
    {| ei_crop := di_crop x; ei_verdu := di_verdu x; ei_elai := di_elai x; ei_expw := di_expw x;
       ei_regen := regen; ei_wg0 := di_wg1 x; ei_wmin := di_wmin x; ei_w := di_w x; ei_wnor := di_wnor x;
       ei_porges := di_porges x; ei_wurz := di_wurz x; ei_wudich := di_wudich x; ei_grw := di_grw x;
       ei_lukrit := di_lukrit x; ei_lumday := di_lumday x; ei_lured := di_lured x; ei_etrel := di_etrel x;
       ei_trrel := di_trrel x |}.

  (* run.go:590 on SUBD = 1: what Water reads and where it comes from *)
  Definition water_in_of (x : day_in) (e : evatra_out (T:=T)) (wdt : T) : water_in (T:=T) :=
    {| wi_subd1 := true; wi_wdt := wdt; wi_after_sow := di_after_sow x;
       wi_fluss0 := eo_fluss0 e; wi_grw := di_grw x; wi_draidep := di_draidep x; wi_draifak := di_draifak x;
       wi_outn := di_outn x; wi_gwauf := eo_gwauf e; wi_eta := eo_eta e;
       wi_wg0 := di_wg1 x; wi_tp := eo_tp e; wi_w := di_w x; wi_wmin := di_wmin x; wi_nfk := eo_nfk e;
       wi_ev := eo_ev e ++ [di_ev_last x];
       wi_q1 := di_q10 x :: map (fun _ => zero) (di_wg1 x);
       wi_caps := di_caps x |}.

  Definition set_after_sow (b : bool) (x : water_in (T:=T)) : water_in (T:=T) :=
    {| wi_subd1 := wi_subd1 x; wi_wdt := wi_wdt x; wi_after_sow := b; wi_fluss0 := wi_fluss0 x; wi_grw := wi_grw x;
       wi_draidep := wi_draidep x; wi_draifak := wi_draifak x; wi_outn := wi_outn x; wi_gwauf := wi_gwauf x;
       wi_eta := wi_eta x; wi_wg0 := wi_wg0 x; wi_tp := wi_tp x; wi_w := wi_w x; wi_wmin := wi_wmin x;
       wi_nfk := wi_nfk x; wi_ev := wi_ev x; wi_q1 := wi_q1 x; wi_caps := wi_caps x |}.

  (* crop.go:68-70 / nitro.go:428-430 *)
  Definition season_reset (c : water_counters (T:=T)) : water_counters (T:=T) :=
    {| c_pftrans := c_pftrans c; c_tray := c_tray c; c_trag := zero; c_etag := zero; c_tp3 := c_tp3 c;
       c_tp6 := c_tp6 c; c_tp9 := c_tp9 c; c_draisum := c_draisum c; c_sicker := c_sicker c;
       c_capsum := c_capsum c; c_perg := zero; c_infilt := c_infilt c |}.

  (* the counters over the sub-steps.  [water_counters_step] reads of its [water_in] argument only
     wdt, after_sow, outn, eta, gwauf, fluss0 — all constant over [water_next] — so the first
     sub-step's record [x1] / its variant [xl] with the later "after sowing" flag serve every step. *)
  Fixpoint day_counters (x1 xl : water_in (T:=T)) (first reset : bool) (outs : list (water_out (T:=T)))
           (c : water_counters (T:=T)) : water_counters (T:=T) :=
    match outs with
    | [] => c
    | o :: r =>
        let c1 := water_counters_step (if first then x1 else xl) o c in
        let c2 := if first && reset then season_reset c1 else c1 in
        day_counters x1 xl false reset r c2
    end.

  (* WG[1] after the last sub-step *)
  Fixpoint day_final (wg : list T) (outs : list (water_out (T:=T))) : list T :=
    match outs with [] => wg | o :: r => day_final (wo_wg1 o) r end.

  Definition day_water (x : day_in) : day_out :=
    let regen := day_regen x in
    let e := evatra_struct (evatra_in_of x regen) in
    let zsr := zsr_of (eo_fluss0 e) regen (di_w x) (di_wg1 x) in
    let '(steps, wdt) := steps_of (wdt_of zsr) in
    let x1 := water_in_of x e wdt in
    let outs := water_iter (Z.to_nat steps) x1 in
    let cnt := day_counters x1 (set_after_sow (di_after_sow_later x) x1) true (di_season_reset x) outs (di_cnt x) in
    {| do_regen := regen; do_ev := e; do_steps := steps; do_wdt := wdt; do_outs := outs;
       do_wg1 := day_final (di_wg1 x ++ [last (di_wg1 x) zero]) outs;
       do_cnt := cnt |}.

  (* the clamped uptake of the day: TP after sub-step 1 (later sub-steps keep it) *)
  Definition day_tp (o : day_out) : list T :=
    match do_outs o with [] => [] | o1 :: _ => wo_tp o1 end.
End DayWater.
