(* HydroProofs.v — lemmas for C15 about HydroModel / PtfModel.calc_wred / WaterModel.set_fc_gw over the reals. *)
From Coq Require Import ZArith Reals List Bool Lra Lia Ascii Psatz Floats.
From Hermes Require Import Num RUtil WaterModel WaterBounds PtfModel HydroModel.
Import ListNotations.
Local Open Scope R_scope.

(* ------------------------------------------------------------------ *)
(* reals instance: decimal literals and comparisons                     *)

Ltac pow10 :=
  repeat match goal with
  | |- context [(10 ^ Z.of_nat ?k)%Z] =>
      let v := eval vm_compute in (10 ^ Z.of_nat k)%Z in change (10 ^ Z.of_nat k)%Z with v
  | H : context [(10 ^ Z.of_nat ?k)%Z] |- _ =>
      let v := eval vm_compute in (10 ^ Z.of_nat k)%Z in change (10 ^ Z.of_nat k)%Z with v in H
  end.

Ltac runfold :=
  unfold dec, gtb, geb in *; rsimp; unfold RI.ltb, RI.leb in *; pow10.

(* split on every comparison of the goal, pruning impossible combinations at once *)
Ltac split_cmp :=
  match goal with
  | |- context [Rlt_dec ?a ?b] => destruct (Rlt_dec a b); try (exfalso; lra); split_cmp
  | |- context [Rle_dec ?a ?b] => destruct (Rle_dec a b); try (exfalso; lra); split_cmp
  | _ => idtac
  end.

(* ------------------------------------------------------------------ *)
(* Hydro's corrections depend on Corg and the level only through their classes *)

Lemma krr_krg_R (k : tkind) (grw c : R) :
  krr_krg (T:=R) k grw c =
  (IZR (fst (krr_krg_z k (gw_class grw) (corg_class c))) / 2, IZR (snd (krr_krg_z k (gw_class grw) (corg_class c))) / 2).
Proof.
  unfold krr_krg, gw_class, corg_class. runfold.
  destruct k; split_cmp; cbn; f_equal; lra.
Qed.

Lemma hydro_classes (k : tkind) (grw grw' c c' : R) :
  gw_class grw = gw_class grw' -> corg_class c = corg_class c' -> krr_krg k grw c = krr_krg k grw' c'.
Proof. intros H1 H2. rewrite !krr_krg_R, H1, H2. reflexivity. Qed.

Lemma corg_class_lt (c : R) : (corg_class c < 7)%nat.
Proof. unfold corg_class. repeat match goal with |- context [if ?b then _ else _] => destruct b end; cbn; lia. Qed.
Lemma gw_class_lt (g : R) : (gw_class g < 6)%nat.
Proof. unfold gw_class. repeat match goal with |- context [if ?b then _ else _] => destruct b end; lia. Qed.

(* ------------------------------------------------------------------ *)
(* the table lookup in exact arithmetic = its integer mirror / 200      *)

Definition ordered_lpar (p : lpar (T:=R)) : Prop :=
  0 < l_wmin p /\ l_wmin p < l_w p /\ l_w p <= l_porges p /\ l_porges p < 1.

Lemma hydro_R (t : texture) (fk nfk pv : Z) (grw c st : R) :
  let h := hydro (T:=R) t fk nfk pv grw c st in
  let x := hydro_z t fk nfk pv (gw_class grw) (corg_class c) in
  ho_lim h = IZR (fst (fst x)) / 200 /\ ho_feldw h = IZR (snd (fst x)) / 200 /\ ho_prges h = IZR (snd x) / 200 /\
  ho_normfk h = IZR fk / 100 /\
  ho_wred h = (IZR (fk - nfk) + (if tex_is_sand t then 6 / 10 else 66 / 100) * IZR nfk) / 100 * (1 - st).
Proof.
  unfold hydro, hydro_z. rewrite krr_krg_R.
  destruct (krr_krg_z (tex_kind t) (gw_class grw) (corg_class c)) as [a b]. cbn [fst snd ho_lim ho_feldw ho_prges ho_normfk ho_wred].
  unfold calc_wred. runfold.
  rewrite !plus_IZR, !mult_IZR, !minus_IZR.
  repeat split; try lra. destruct (tex_is_sand t); lra.
Qed.

(* scaling WP < FC <= PS < 1 by (1 - stone fraction) keeps the order *)
Lemma stone_scaling (wp fc ps s : R) :
  0 <= s < 1 -> 0 < wp -> wp < fc -> fc <= ps -> ps < 1 ->
  0 < wp * (1 - s) /\ wp * (1 - s) < fc * (1 - s) /\ fc * (1 - s) <= ps * (1 - s) /\ ps * (1 - s) < 1.
Proof. intros. repeat split; nra. Qed.

Lemma ordered_z_R (x : Z * Z * Z) (s : R) :
  ordered_z x = true -> 0 <= s < 1 ->
  let '(lim, feldw, pv) := x in
  0 < IZR lim / 200 * (1 - s) /\ IZR lim / 200 * (1 - s) < IZR feldw / 200 * (1 - s) /\
  IZR feldw / 200 * (1 - s) <= IZR pv / 200 * (1 - s) /\ IZR pv / 200 * (1 - s) < 1.
Proof.
  destruct x as [[lim feldw] pv]. unfold ordered_z. rewrite !andb_true_iff, !Z.ltb_lt, Z.leb_le.
  intros [[[H1 H2] H3] H4] Hs.
  apply IZR_lt in H1, H2, H4. apply IZR_le in H3.
  apply stone_scaling; lra.
Qed.

Lemma forallb_seq (f : nat -> bool) (n k : nat) : forallb f (seq 0 n) = true -> (k < n)%nat -> f k = true.
Proof. intros H Hk. rewrite forallb_forall in H. apply H. apply in_seq. lia. Qed.

Lemma class_ok_of_check rows both bad t ld (grw c : R) :
  table_check rows both bad = true -> In t both -> (1 <= ld <= 5)%Z ->
  class_ok rows bad t ld (corg_class c) (gw_class grw) = true.
Proof.
  unfold table_check. intros H Ht Hld. rewrite forallb_forall in H. specialize (H _ Ht).
  rewrite forallb_forall in H. assert (In ld [1; 2; 3; 4; 5]%Z) as Hin by (cbn; lia).
  specialize (H _ Hin).
  pose proof (forallb_seq _ _ _ H (corg_class_lt c)) as H2. cbv beta in H2.
  exact (forallb_seq _ _ _ H2 (gw_class_lt grw)).
Qed.

Theorem table_check_ordered rows both bad : table_check rows both bad = true ->
  forall t ld (grw c s : R), In t both -> (1 <= ld <= 5)%Z -> 0 <= s < 1 ->
  is_bad bad (t, ld, corg_class c, gw_class grw) = false ->
  exists fk nfk pv, triple_of rows t ld = Some (fk, nfk, pv) /\
    ordered_lpar (route_table (hydro t fk nfk pv grw c s) s).
Proof.
  intros H t ld grw c s Ht Hld Hs Hbad.
  pose proof (class_ok_of_check _ _ _ t ld grw c H Ht Hld) as Hc. unfold class_ok in Hc.
  destruct (triple_of rows t ld) as [[[fk nfk] pv]|]; [|discriminate].
  exists fk, nfk, pv. split; [reflexivity|].
  rewrite Hbad in Hc. cbn [andb] in Hc. apply andb_true_iff in Hc. destruct Hc as [Ho _].
  assert (Ho' : ordered_z (hydro_z t fk nfk pv (gw_class grw) (corg_class c)) = true) by (destruct (ordered_z _); [reflexivity | discriminate]).
  clear Ho; rename Ho' into Ho.
  pose proof (hydro_R t fk nfk pv grw c s) as HR. cbv zeta in HR. destruct HR as (E1 & E2 & E3 & _ & _).
  pose proof (ordered_z_R _ s Ho Hs) as HZ.
  destruct (hydro_z t fk nfk pv (gw_class grw) (corg_class c)) as [[lim feldw] pv2]. cbn [fst snd] in *.
  unfold ordered_lpar, route_table. cbn [l_w l_wmin l_porges]. rsimp. rewrite E1, E2, E3. exact HZ.
Qed.

(* the threshold of the first horizon lies strictly between WMIN[0] and W[0] of the table route, stones included
   (since d7a6e7d all three carry the factor 1 - stone fraction) *)
Theorem table_check_wred rows both bad : table_check rows both bad = true ->
  forall t ld (grw c s : R), In t both -> (1 <= ld <= 5)%Z -> 0 <= s < 1 ->
  exists fk nfk pv, triple_of rows t ld = Some (fk, nfk, pv) /\
    let h := hydro t fk nfk pv grw c s in
    let p := route_table h s in l_wmin p < ho_wred h < l_w p.
Proof.
  intros H t ld grw c s Ht Hld Hs.
  pose proof (class_ok_of_check _ _ _ t ld grw c H Ht Hld) as Hc. unfold class_ok in Hc.
  destruct (triple_of rows t ld) as [[[fk nfk] pv]|]; [|discriminate].
  exists fk, nfk, pv. split; [reflexivity|].
  apply andb_true_iff in Hc. destruct Hc as [_ Hw].
  pose proof (hydro_R t fk nfk pv grw c s) as HR. cbv zeta in HR. destruct HR as (E1 & E2 & _ & _ & E5).
  cbv zeta. unfold route_table. cbn [l_w l_wmin]. rsimp. rewrite E1, E2, E5. unfold hydro_z, wred_z in *.
  destruct (krr_krg_z (tex_kind t) (gw_class grw) (corg_class c)) as [a b]. cbn [fst snd].
  apply andb_true_iff in Hw. destruct Hw as [Hn Hw]. apply Z.ltb_lt in Hn. apply IZR_lt in Hn.
  rewrite !plus_IZR, !mult_IZR, !minus_IZR.
  assert (H1s : 0 < 1 - s) by lra.
  destruct (tex_is_sand t); apply Z.ltb_lt in Hw; apply IZR_lt in Hw; rewrite !plus_IZR, !mult_IZR in Hw;
    split; apply Rmult_lt_compat_r; lra.
Qed.

(* ------------------------------------------------------------------ *)
(* explicit route, threshold                                            *)

Lemma explicit_ordered_lemma (fka wp gpv : R) :
  0 < wp -> wp < fka -> fka <= gpv -> gpv < 100 -> ordered_lpar (route_explicit fka wp gpv).
Proof. intros. unfold ordered_lpar, route_explicit. cbn [l_w l_wmin l_porges]. rsimp. repeat split; lra. Qed.

(* calcWRed is handed percent and returns a fraction strictly between the two (sand 0.6, else 0.66) *)
Lemma wred_between_lemma (sand : bool) (wp fc : R) :
  wp < fc -> wp / 100 < calc_wred sand wp fc < fc / 100.
Proof. intros H. unfold calc_wred. runfold. destruct sand; lra. Qed.

(* the three call sites *)
Lemma wred_explicit_lemma (sand : bool) (fka wp gpv : R) :
  wp < fka -> let p := route_explicit fka wp gpv in l_wmin p < wred_explicit sand fka wp < l_w p.
Proof. intros H p. unfold wred_explicit, p, route_explicit. cbn [l_w l_wmin]. rsimp. apply wred_between_lemma. exact H. Qed.

Lemma wred_fraction_lemma (sand : bool) (p : lpar (T:=R)) :
  l_wmin p < l_w p -> l_wmin p < wred_fraction sand p < l_w p.
Proof.
  intros H. unfold wred_fraction. rsimp.
  pose proof (wred_between_lemma sand (l_wmin p * 100) (l_w p * 100) ltac:(lra)). lra.
Qed.

Lemma wred_restore_lemma (sand : bool) (b : params (T:=R)) (grw : R) :
  nth 0 (P_wmin b) 0 < nth 0 (P_w b) 0 ->
  let u := gw_update_restore sand b grw in
  nth 0 (P_wmin u) 0 < P_wred u /\ P_wred u < nth 0 (P_w b) 0.
Proof.
  intros H u. unfold u, gw_update_restore. cbn [P_wmin P_wred]. rsimp.
  pose proof (wred_between_lemma sand (nth 0 (P_wmin b) 0 * 100) (nth 0 (P_w b) 0 * 100) ltac:(lra)). lra.
Qed.

(* the former counterexample (ULS, density 1, 30 % stones: WRED 0.3016 above W[0] 0.273 before d7a6e7d), now ordered *)
Lemma wred_table_stones_instance :
  let h := hydro (T:=R) ("U", "L", "S")%char 39 26 48 10 1 (3 / 10) in
  let p := route_table h (3 / 10) in
  ordered_lpar p /\ l_wmin p < ho_wred h < l_w p.
Proof.
  cbv zeta. pose proof (hydro_R ("U", "L", "S")%char 39 26 48 10 1 (3 / 10)) as HR. cbv zeta in HR.
  assert (Hg : gw_class (T:=R) 10 = 2%nat).
  { unfold gw_class. runfold. split_cmp. reflexivity. }
  assert (Hc : corg_class (T:=R) 1 = 1%nat).
  { unfold corg_class. runfold. split_cmp. reflexivity. }
  assert (Hz : hydro_z ("U", "L", "S")%char 39 26 48 2 1 = (26, 78, 96)%Z) by (vm_compute; reflexivity).
  assert (Hs : tex_is_sand ("U", "L", "S")%char = false) by reflexivity.
  rewrite Hg, Hc, Hz, Hs in HR. cbn [fst snd] in HR.
  set (h := hydro (T:=R) ("U", "L", "S")%char 39 26 48 10 1 (3 / 10)) in *.
  destruct HR as (E1 & E2 & E3 & _ & E5).
  unfold ordered_lpar, route_table. cbn [l_w l_wmin l_porges]. rsimp. rewrite E1, E2, E3, E5.
  replace (IZR (39 - 26)) with 13 by (rewrite minus_IZR; lra). lra.
Qed.

(* ------------------------------------------------------------------ *)
(* the groundwater adjustment keeps the order and saturates below the table *)

Lemma set_fc_gw_from_nth (first : nat) (fr : R) (w : list R) : forall porges l i,
  length w = length porges -> (i < length w)%nat ->
  let v := nth i (@set_fc_gw_from R RNum l first fr w porges) 0 in
  v = nth i w 0 \/ v = (1 - fr) * nth i porges 0 + nth i w 0 * fr \/ v = nth i porges 0.
Proof.
  induction w as [|wv wr IH]; intros [|pv pr] l i L Hi; cbn in L, Hi; try lia.
  cbn [set_fc_gw_from]. destruct i as [|i].
  - cbn [nth]. destruct (Nat.ltb l first); [left; reflexivity|]. destruct (Nat.eqb l first); rsimp; auto.
  - cbn [nth]. apply IH; lia.
Qed.

Lemma mod1_range (x : R) : 0 <= x -> 0 <= RI.mod1 x < 1.
Proof.
  intros H. unfold RI.mod1, RI.trunc_Z. destruct (Rle_dec 0 x); [|lra].
  pose proof (base_fp x) as [H1 H2]. unfold frac_part in *. lra.
Qed.

Lemma set_fc_gw_from_length (first : nat) (fr : R) (w : list R) : forall porges l,
  length (@set_fc_gw_from R RNum l first fr w porges) = length w.
Proof. induction w as [|a w IH]; intros [|p porges] l; cbn; auto. Qed.

Lemma set_fc_gw_keeps_order_lemma (grw : R) (w wmin porges : list R) :
  -1 <= grw -> length w = length porges ->
  (forall i, (i < length w)%nat -> nth i wmin 0 < nth i w 0 <= nth i porges 0) ->
  let w' := @set_fc_gw R RNum grw w porges in
  length w' = length w /\
  forall i, (i < length w)%nat -> nth i wmin 0 < nth i w' 0 <= nth i porges 0 /\ nth i w 0 <= nth i w' 0.
Proof.
  intros Hg L H w'. split.
  { unfold w', set_fc_gw. apply set_fc_gw_from_length. }
  intros i Hi. specialize (H i Hi).
  pose proof (mod1_range (grw + 1) ltac:(lra)) as Hf.
  pose proof (set_fc_gw_from_nth (Z.to_nat (RI.trunc_Z (grw + 1))) (RI.mod1 (grw + 1)) w porges 1 i L Hi) as Hc.
  cbv zeta in Hc. unfold w', set_fc_gw. rsimp. cbn [truncZ frac1 RNum].
  destruct Hc as [-> | [-> | ->]]; nra.
Qed.

(* ------------------------------------------------------------------ *)
(* parameters after the daily update are a function of the current level only *)

Section Return.
  Variable upd : R -> params (T:=R).

  Lemma day_step_grw (st : gwstate) (g : R) : s_grw (day_step upd st g) = g.
  Proof. unfold day_step. rsimp. unfold RI.eqb. destruct (Req_EM_T g (s_grw st)); [symmetry; assumption | reflexivity]. Qed.

  Lemma day_step_inv (st : gwstate) (g : R) :
    s_par st = upd (s_grw st) \/ g <> s_grw st ->
    s_par (day_step upd st g) = upd (s_grw (day_step upd st g)).
  Proof.
    unfold day_step. rsimp. unfold RI.eqb. destruct (Req_EM_T g (s_grw st)) as [E|E]; cbn; intros [H|H]; auto; congruence.
  Qed.

  Lemma day_step_same (st : gwstate) (g : R) : g = s_grw st -> day_step upd st g = st.
  Proof. intros E. unfold day_step. rsimp. unfold RI.eqb. destruct (Req_EM_T g (s_grw st)); [reflexivity | contradiction]. Qed.

  Lemma run_levels_updated : forall (levels : list R) (st : gwstate) (i : nat) (si : gwstate),
    nth_error (run_levels upd st levels) i = Some si ->
    (s_par st = upd (s_grw st) \/ exists k, (k <= i)%nat /\ nth k levels (s_grw st) <> s_grw st) ->
    s_par si = upd (s_grw si) /\ s_grw si = nth i levels (s_grw st).
  Proof.
    induction levels as [|g r IH]; intros st i si Hn Hm; [destruct i; discriminate|].
    cbn [run_levels] in Hn. destruct i as [|i].
    - cbn in Hn. injection Hn as <-. split; [|cbn; apply day_step_grw].
      apply day_step_inv. destruct Hm as [Hm | (k & Hk & Hne)]; [left; exact Hm|].
      right. assert (k = 0)%nat as -> by lia. exact Hne.
    - cbn [nth_error] in Hn. specialize (IH (day_step upd st g) i si Hn).
      assert (Hd : forall d, nth (S i) (g :: r) d = nth i r d) by reflexivity.
      destruct (Req_EM_T g (s_grw st)) as [E|E].
      + rewrite (day_step_same st g E) in *. destruct IH as [I1 I2].
        { destruct Hm as [Hm | (k & Hk & Hne)]; [left; exact Hm|]. right.
          destruct k as [|k]; [cbn in Hne; congruence|]. exists k. split; [lia | exact Hne]. }
        split; [exact I1 | rewrite I2; reflexivity].
      + destruct IH as [I1 I2]; [left; apply day_step_inv; right; exact E|].
        split; [exact I1|]. rewrite I2. cbn [nth]. apply nth_indep.
        assert (Hl : forall (l : list R) s, length (run_levels upd s l) = length l).
        { induction l; intros; cbn; auto. }
        rewrite <- (Hl r (day_step upd st g)). apply nth_error_Some. congruence.
  Qed.

  Theorem gw_return_lemma (st0 : gwstate) (levels : list R) (i j : nat) (si sj : gwstate) :
    nth_error (run_levels upd st0 levels) i = Some si ->
    nth_error (run_levels upd st0 levels) j = Some sj ->
    (exists k, (k <= i)%nat /\ (k <= j)%nat /\ nth k levels (s_grw st0) <> s_grw st0) ->
    nth i levels (s_grw st0) = nth j levels (s_grw st0) ->
    s_grw si = s_grw sj /\ s_par si = s_par sj.
  Proof.
    intros Hi Hj (k & K1 & K2 & Hne) E.
    destruct (run_levels_updated levels st0 i si Hi) as [A1 A2]; [right; exists k; auto|].
    destruct (run_levels_updated levels st0 j sj Hj) as [B1 B2]; [right; exists k; auto|].
    split; [congruence|]. rewrite A1, B1. congruence.
  Qed.
End Return.

(* below the table field capacity = pore volume after every daily update (both paths), from the C06 lemma *)
Lemma fc_below_gw_restore (sand : bool) (b : params (T:=R)) (grw : R) :
  length (P_w b) = length (P_porges b) ->
  let u := gw_update_restore sand b grw in
  forall i, (i < length (P_w b))%nat -> (Z.to_nat (RI.trunc_Z (grw + 1)) < S i)%nat ->
    nth i (P_w u) 0 = nth i (P_porges u) 0.
Proof.
  intros L u i Hi Hf. unfold u, gw_update_restore. cbn [P_w P_porges].
  exact (proj1 (fc_below_gw_lemma grw (P_w b) (P_porges b) L i Hi) Hf).
Qed.

Lemma fc_below_gw_table (n : nat) (hz : list (thorizon (T:=R))) (grw : R) :
  let u := gw_update_table n hz grw in
  forall i, (i < length (P_w u))%nat -> (Z.to_nat (RI.trunc_Z (grw + 1)) < S i)%nat ->
    nth i (P_w u) 0 = nth i (P_porges u) 0.
Proof.
  intros u i Hi Hf. unfold u, gw_update_table in *. cbn [P_w P_porges] in *.
  set (p := table_params n hz grw) in *.
  assert (L : length (P_w p) = length (P_porges p)) by (unfold p, table_params, params_of; cbn [P_w P_porges]; rewrite !map_length; reflexivity).
  assert (Hi' : (i < length (P_w p))%nat).
  { unfold set_fc_gw in Hi. rewrite set_fc_gw_from_length in Hi. exact Hi. }
  exact (proj1 (fc_below_gw_lemma grw (P_w p) (P_porges p) L i Hi') Hf).
Qed.

(* ------------------------------------------------------------------ *)
(* F7: relative to the INITIAL state the return property is false (binary64 witness, as the program runs it):
   ten layers FC 0.22 / PS 0.43, level 8 dm read by Input and unchanged at Init, then 8 -> 9 -> 8 dm.
   Layer 8 starts at pore volume (Input raises from round(8) = 8 on) and is at 0.22 after the return
   (the daily update saturates from int(8+1)+1 = 10 on and mixes layer 9). *)
Section F7.
  Local Open Scope float_scope.
  Definition f7_backup : params (T:=float) :=
    params_of (repeat {| l_w := 0x1.c28f5c28f5c29p-3; l_wmin := 0x1.999999999999ap-4; l_porges := 0x1.b851eb851eb85p-2; l_wnor := 0x1.c28f5c28f5c29p-3 |} 10)
              (calc_wred false 10 22).
  Definition f7_upd : float -> params (T:=float) := gw_update_restore false f7_backup.
  Definition f7_st0 : gwstate := {| s_grw := 8; s_par := initial_params f7_backup 8 8 |}.
  Definition f7_states := run_levels f7_upd f7_st0 [8; 9; 8].

  Definition f7_level_a : float := 8.
  Definition f7_level_b : float := 9.
  Definition f7_fc : float := 0x1.c28f5c28f5c29p-3.      (* 0.22 *)
  Definition f7_ps : float := 0x1.b851eb851eb85p-2.      (* 0.43 *)
  Lemma gw_return_initial_witness :
    map (fun st => s_grw st) f7_states = [f7_level_a; f7_level_b; f7_level_a] /\
    nth 7 (P_w (s_par (nth 0 f7_states f7_st0))) PrimFloat.zero = f7_ps /\
    nth 7 (P_w (s_par (nth 2 f7_states f7_st0))) PrimFloat.zero = f7_fc /\
    PrimFloat.eqb f7_ps f7_fc = false.
  Proof. vm_compute. repeat split. Qed.
End F7.

(* ------------------------------------------------------------------ *)
(* Input with PTF = 0: the route is chosen per horizon; the first layer and WRED both come from the first horizon *)

Lemma file_first_layer (n : nat) (h : fhorizon (T:=R)) (r : list fhorizon) (grw : R) :
  (0 < n)%nat -> (0 < snd (file_horizon grw h))%Z ->
  let p := file_params n (h :: r) grw in
  let l := fst (file_horizon grw h) in
  nth 0 (P_w p) 0 = l_w l /\ nth 0 (P_wmin p) 0 = l_wmin l /\ nth 0 (P_porges p) 0 = l_porges l /\
  P_wred p = file_wred grw h.
Proof.
  intros Hn Hu p l. unfold p, file_params, params_of, layers. cbn [map expand P_w P_wmin P_porges P_wred].
  destruct (file_horizon grw h) as [lp ukt] eqn:E. cbn [fst snd] in *. subst l.
  rewrite Z.sub_0_r. destruct (Z.to_nat ukt) as [|k] eqn:Ek; [lia|]. destruct n as [|n']; [lia|].
  cbn [repeat app firstn map nth]. auto.
Qed.

(* the threshold lies strictly between WMIN[0] and W[0] whichever route the first horizon takes: explicit values (any stone
   content: neither the parameters nor the threshold are scaled) need WP < FC; the table route needs what the generated
   table obligation gives (C15_table_wred_between, every stone fraction) *)
Lemma wred_between_file_route (n : nat) (t : texture) (fk nfk pv : Z) (c st : R) (ukt : Z) (fka wp gpv : R)
  (r : list (fhorizon (T:=R))) (grw : R) :
  let h : fhorizon (T:=R) := ((t, (fk, nfk, pv), c, st, ukt), (fka, wp, gpv)) in
  (0 < n)%nat -> (0 < ukt)%Z ->
  (if Rlt_dec 0 fka then wp < fka
   else let ho := hydro t fk nfk pv grw c st in let p := route_table ho st in l_wmin p < ho_wred ho < l_w p) ->
  let p := file_params n (h :: r) grw in
  nth 0 (P_wmin p) 0 < P_wred p < nth 0 (P_w p) 0.
Proof.
  intros h Hn Hu H p.
  destruct (file_first_layer n h r grw Hn) as (E1 & E2 & _ & E4).
  { unfold h, file_horizon. cbn [snd]. exact Hu. }
  cbv zeta in E1, E2, E4. unfold p. rewrite E1, E2, E4. unfold h, file_horizon, file_wred. cbn [fst]. rsimp. unfold RI.ltb.
  destruct (Rlt_dec 0 fka).
  - apply wred_explicit_lemma. exact H.
  - exact H.
Qed.
