(* OutFileModel.v — model of how a run writes its result files (C03: "the same project inputs
   and batch line always produce byte-identical result files", whatever ran before).

     hermes/path.go:246-262  DefaultFoutGenerator(filePath, append):
         append  -> os.O_CREATE|os.O_APPEND|os.O_WRONLY     writes go to the end of the old content
         !append -> os.O_CREATE|os.O_TRUNC |os.O_WRONLY     the old content is dropped
     hermes/path.go:271-300  Fout.Write*/Close: the chunks are written one after the other
     every result file of a run is opened with append = false (run.go:164,250,274,285,
     output_management.go:158, output.go:343, session.go:118,133 — checked by the driver).

   A file system is a map path -> bytes (absent = no file).  Writing [data] at offset [off]
   into [old] is POSIX pwrite: bytes beyond the written range are kept. *)
From stdpp Require Import gmap.

Section OutFile.
  Context {path byte : Type} `{Countable path}.
  Notation bytes := (list byte).
  Definition fsys := gmap path bytes.

  Definition pwrite (old : bytes) (off : nat) (data : bytes) : bytes :=
    take off old ++ data ++ drop (off + length data) old.

  (* open: (content right after open, write offset).  [trunc] = O_TRUNC given *)
  Definition fopen (append trunc : bool) (old : option bytes) : bytes * nat :=
    let o := default [] old in
    if append then (o, length o) else if trunc then ([], 0) else (o, 0).

  (* DefaultFoutGenerator as it is: O_TRUNC exactly when not append *)
  Definition fout_open (append : bool) (old : option bytes) : bytes * nat := fopen append (negb append) old.

  Fixpoint write_chunks (content : bytes) (off : nat) (chunks : list bytes) : bytes :=
    match chunks with
    | [] => content
    | d :: r => write_chunks (pwrite content off d) (off + length d) r
    end.

  (* open, write the chunks, close *)
  Definition write_file (append : bool) (fs : fsys) (p : path) (chunks : list bytes) : fsys :=
    let '(c0, off) := fout_open append (fs !! p) in
    <[p := write_chunks c0 off chunks]> fs.

  (* a run writes each of its result files once (append = false); a history is a list of runs *)
  Definition run_out := list (path * list bytes).
  Definition do_run (fs : fsys) (r : run_out) : fsys :=
    foldl (fun fs pc => write_file false fs pc.1 pc.2) fs r.
  Definition do_history (fs : fsys) (h : list run_out) : fsys := foldl do_run fs h.
End OutFile.
