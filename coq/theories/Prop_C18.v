(* Prop_C18.v — property C18 (a crop-parameter override on the batch line equals the same edit in
   the crop parameter file; an out-of-range override is rejected as a whole).  Stated about
   OverrideModel (crop_calibration.go) and CropParamModel (cropparam.go), as equality of the FULL
   crop state the simulation starts the crop with — including the derived quantities (total
   temperature sum, root-depth rate VELOC/200, initial N concentrations /100).  Whole-run
   equality follows because the run depends on the loaded state only (C13 reduction).
   Only statements, each closed by [exact lemma], and Print Assumptions. *)
From Coq Require Import ZArith List Bool Ascii String.
From Hermes Require Import Num DateModel CropParamModel CropParamProofs OverrideModel OverrideProofs CropSamples C13Corr C18Proofs.
Import ListNotations.
Local Open Scope Z_scope.

(* YAML crop file: loading the edited record = applying the override to the loaded state, for ANY
   set of overrides (base, per-stage, per-organ) that passes the validation, any record the reader
   accepts, any state before, with or without the perennial-continuation rule *)
Theorem C18_override_commutes : forall (T : Type) (NT : Num T) cont (r : crop_rec T) s0 s (o : cropow T),
  state_of_yaml cont r s0 = Some s ->
  valid o (NRKOM s) (NRENTW s) = true ->
  state_of_yaml cont (edit_rec o r) s0 = Some (apply cont o s).
Proof. exact (@override_commutes_lemma). Qed.

(* classic crop file: every file that parses to the edited record gives the overridden state
   (hypotheses: those of C13_crop_yaml_agree for both files) *)
Theorem C18_override_commutes_classic : forall (T : Type) (NT : Num T) cont lines lines' (r : crop_rec T) s0 s (o : cropow T),
  convert_core lines = Some r -> convert_core lines' = Some (edit_rec o r) ->
  r_nrkom r <= 5 -> r_nrentw r <= 10 -> ago_ok (r_nrkom r) (r_ago r) = true ->
  bbch_ok lines (ztn (r_nrentw r)) -> bbch_ok lines' (ztn (r_nrentw r)) ->
  stale_ok lines s0 -> stale_ok lines' s0 ->
  state_of_classic cont lines s0 = Some s ->
  valid o (NRKOM s) (NRENTW s) = true ->
  state_of_classic cont lines' s0 = Some (apply cont o s).
Proof. exact (@override_commutes_classic_lemma). Qed.

(* the classic file end to end, one override entry whose decimal text is written into the file by
   [edit_lines] (three blanks and the text from column 65 of the parameter's line): every per-stage
   parameter (TSUM with its derived total sum, BAS, VSCHWELL, DAYL, DLBAS, DRYSWELL, LUKRIT, LAIFKT,
   WGMAX, KC) of every stage ... *)
Theorem C18_classic_stage_override_commutes :
  forall (T : Type) (NT : Num T) cont lines lines' (r : crop_rec T) s0 s p d i0 text v,
  convert_core lines = Some r -> r_nrkom r <= 5 -> r_nrentw r <= 10 -> ago_ok (r_nrkom r) (r_ago r) = true ->
  bbch_ok lines (ztn (r_nrentw r)) -> stale_ok lines s0 ->
  stage_off p = Some d -> edit_lines lines p (S i0) 0 text = Some lines' -> val_as_float text = Some v ->
  state_of_classic cont lines s0 = Some s ->
  valid (single_stage p (S i0) v) (NRKOM s) (NRENTW s) = true ->
  state_of_classic cont lines' s0 = Some (apply cont (single_stage p (S i0) v) s).
Proof. exact (@classic_stage_override_commutes). Qed.

(* ... and the base parameters MAXAMAX, MINTMP, WUMAXPF, VELOC (/200 on both paths), INITCONCNBIOM,
   INITCONCNROOT (/100, perennial-continuation rule on both paths).  Partial: the yield fraction
   (column 66) and the per-organ values (5-column fields) are covered at the text level by the
   correspondence only (edit_lines = the edit made on disk; reader of the edited file = model). *)
Theorem C18_classic_base_override_commutes_partial :
  forall (T : Type) (NT : Num T) cont lines lines' (r : crop_rec T) s0 s p text v,
  convert_core lines = Some r -> r_nrkom r <= 5 -> r_nrentw r <= 10 -> ago_ok (r_nrkom r) (r_ago r) = true ->
  bbch_ok lines (ztn (r_nrentw r)) -> stale_ok lines s0 ->
  base_line p <> None -> p <> YIFAK_ -> edit_lines lines p 0 0 text = Some lines' -> val_as_float text = Some v ->
  state_of_classic cont lines s0 = Some s ->
  valid (single_base p v) (NRKOM s) (NRENTW s) = true ->
  state_of_classic cont lines' s0 = Some (apply cont (single_base p v) s).
Proof. exact (@classic_base_override_commutes). Qed.

(* an override is addressed to ONE crop parameter file (exact equality with the base name of the file
   read): every crop read from a file of another name — also one whose name merely starts with the
   addressed name (PARAM.WR / PARAM.WRA) or the .yml twin — keeps its state *)
Theorem C18_other_file_untouched : forall (T : Type) (NT : Num T) cont target (o : cropow T) file s,
  target <> base_name file -> apply_to cont target o file s = s.
Proof. exact (@other_file_untouched_lemma). Qed.

Theorem C18_addressed_file : forall (T : Type) (NT : Num T) cont (o : cropow T) file s,
  apply_to cont (base_name file) o file s = apply cont o s.
Proof. exact (@addressed_file_lemma). Qed.

(* validation precedes any assignment: an override set with one invalid entry changes nothing *)
Theorem C18_invalid_rejected : forall (T : Type) (NT : Num T) cont (o : cropow T) s,
  valid o (NRKOM s) (NRENTW s) = false -> apply cont o s = s.
Proof. exact (@invalid_rejected_lemma). Qed.

(* non-vacuity: a concrete file, a valid TSUM override (derived sum changes) and an invalid one *)
Example C18_nonvacuous :
  exists r s o o', convert (T:=PrimFloat.float) sample_lines = Some r /\
    state_of_yaml false r C13Corr.zero_state = Some s /\
    parse_overrides [(lstr_of "c_TSUM_2", lstr_of "300"); (lstr_of "c_PRO_1_2", lstr_of "0.25")] = Some o /\
    valid o (NRKOM s) (NRENTW s) = true /\ tendsum (apply false o s) <> tendsum s /\
    parse_overrides (T:=PrimFloat.float) [(lstr_of "c_TSUM_3", lstr_of "300")] = Some o' /\ valid o' (NRKOM s) (NRENTW s) = false.
Proof. exact sample_override. Qed.

(* F29: TSUM = 0 is out of range and takes a valid companion entry down with it; 1e-9 stays valid *)
Example C18_tsum_zero_rejected :
  exists r s o o', convert (T:=PrimFloat.float) sample_lines = Some r /\ state_of_yaml false r C13Corr.zero_state = Some s /\
    parse_overrides [(lstr_of "c_TSUM_1", lstr_of "0"); (lstr_of "c_MAXAMAX", lstr_of "30")] = Some o /\
    valid o (NRKOM s) (NRENTW s) = false /\ apply false o s = s /\
    parse_overrides (T:=PrimFloat.float) [(lstr_of "c_TSUM_1", lstr_of "0.000000001")] = Some o' /\ valid o' (NRKOM s) (NRENTW s) = true.
Proof. exact tsum_zero_rejected. Qed.

Print Assumptions C18_override_commutes.
Print Assumptions C18_override_commutes_classic.
Print Assumptions C18_classic_stage_override_commutes.
Print Assumptions C18_classic_base_override_commutes_partial.
Print Assumptions C18_other_file_untouched.
Print Assumptions C18_addressed_file.
Print Assumptions C18_invalid_rejected.
