(* C04Corr.v — decoding of whole-run observations (harness command c04: calendar state and
   weather echo of every simulated day, run result) and the mismatch function: WeatherModel ∘
   CtrlModel is run on the generated weather records and configuration dates and compared, day by
   day and bit for bit, with what the real simulator did.  C05Corr part: run_events against the
   record dates parsed from the V*/Y*/C* result files, field counts against OutFmtModel. *)
From Coq Require Import ZArith List Bool Floats Uint63.
From Hermes Require Import Num Calendar DateModel WeatherModel CtrlModel.
Import ListNotations.
Open Scope Z_scope.

Definition rec_of (l : list float) : wrec float :=
  match l with
  | [a; b; c; d; e; f; g] => mkw a b c d e f g
  | _ => wzero
  end.

Definition list_of (r : wrec float) : list float :=
  [w_tavg r; w_tmin r; w_tmax r; w_rh r; w_rad r; w_wind r; w_prec r].

Record c04case := mkcase {
  k_layout : Z;                       (* WeatherFileFormat 0 | 1 | 2 *)
  k_penman : bool;                    (* ETpot = 3 *)
  k_none : float;                     (* WeatherNoneValue *)
  k_corr : list float;                (* preco factors (12 x 1.0 when the correction is off) *)
  k_anjahr : Z;                       (* StartYear *)
  k_start : Z * Z * Z;                (* harvest date of the first rotation entry: d, m, y *)
  k_end : Z * Z * Z;                  (* EndDate *)
  k_annual : Z * Z;                   (* AnnualOutputDate: d, m *)
  (* layout 0: one entry per existing year file (year, records keyed by the jday column);
     layout 1/2: one entry (0, records keyed by year*1000 + day of the year) *)
  k_files : list (Z * list (int * list float));
  k_success : bool;
  k_days : list (int * list float)    (* ((ZEIT*1000 + TAG.Index)*1000 + J)*1000 + JTAG, echo *)
}.

Definition dec_multi (layout : Z) (recs : list (int * list float)) : list (mrec float) :=
  map (fun kr : int * list float =>
         let k := Uint63.to_Z (fst kr) in
         let y := k / 1000 in let yd := k mod 1000 in
         if layout =? 2 then cz_rec y yd (rec_of (snd kr)) else (y, yd, rec_of (snd kr))) recs.

Definition dec_year (recs : list (int * list float)) : list (Z * wrec float) :=
  map (fun kr : int * list float => (Uint63.to_Z (fst kr), rec_of (snd kr))) recs.

Definition model_run (c : c04case) : runres (list (Z * cal * wrec float)) :=
  let '(sd, sm, sy) := k_start c in let '(ed, em, ey) := k_end c in let '(ad, am) := k_annual c in
  match bounds_of sd sm sy ed em ey ad am with
  | None => RunPanic
  | Some b =>
      if k_layout c =? 0
      then run_peryear (k_penman c) (k_none c) (k_corr c) (map (fun f => (fst f, dec_year (snd f))) (k_files c))
                       (k_anjahr c) (b_beginn b) (b_itag b) (b_ende b)
      else run_multi (k_penman c) (k_none c) (k_corr c) (dec_multi (k_layout c) (concat (map snd (k_files c))))
                     (k_anjahr c) (b_beginn b) (b_itag b) (b_ende b)
  end.

Definition day_same (m : Z * cal * wrec float) (o : int * list float) : bool :=
  let '(z, c, r) := m in
  (Uint63.to_Z (fst o) =? ((z * 1000 + c_tag c) * 1000 + c_j c) * 1000 + c_jtag c)
  && floats_same (list_of r) (snd o).

Fixpoint day_diffs (i : Z) (m : list (Z * cal * wrec float)) (o : list (int * list float)) : list Z :=
  match m, o with
  | [], [] => []
  | x :: m', y :: o' => if day_same x y then day_diffs (i + 1) m' o' else i :: day_diffs (i + 1) m' o'
  | _, _ => [-1]                           (* different number of days *)
  end.

(* [] = model and run agree; day indices that differ; [-1] = other number of days;
   [-2] = different result kind; [-3] = the model ran into an index panic *)
Definition c04_check (c : c04case) : list Z :=
  match model_run c with
  | RunPanic => [-3]
  | RunError => if negb (k_success c) && match k_days c with [] => true | _ => false end then [] else [-2]
  | RunOk l => if k_success c then firstn 5 (day_diffs 0 l (k_days c)) else [-2]
  end.

Fixpoint c04_mismatches (i : nat) (cs : list c04case) : list (nat * list Z) :=
  match cs with
  | [] => []
  | c :: r => match c04_check c with
              | [] => c04_mismatches (S i) r
              | d => (i, d) :: c04_mismatches (S i) r
              end
  end.

(* ------------------------------------------------------------------ *)
(* C05: events                                                          *)

Record c05case := mkcase5 {
  q_anjahr : Z; q_start : Z * Z * Z; q_end : Z * Z * Z; q_annual : Z * Z;
  q_outint : Z;
  q_ly : list (Z * Z);                (* [] : every year is loaded with all its days; else JTAG by extension key of the year's file name
                                         (per-year layout with deficient files: a year whose key is absent keeps the previous JTAG) *)
  q_ernte : list (Z * Z * Z);         (* harvest dates of the rotation entries, d m y *)
  q_success : bool;
  q_daily : list int;                 (* day numbers of the records of the V file, in file order *)
  q_annualobs : list int;             (* Y file *)
  q_crop : Z                          (* number of records of the C file *)
}.

Fixpoint zs_same (a : list Z) (b : list int) : bool :=
  match a, b with
  | [], [] => true
  | x :: a', y :: b' => (x =? Uint63.to_Z y) && zs_same a' b'
  | _, _ => false
  end.

Definition ylen_ly (y : Z) : option Z := Some (ylen y).

Fixpoint tbl_find (k : Z) (l : list (Z * Z)) : option Z :=
  match l with [] => None | (a, b) :: r => if a =? k then Some b else tbl_find k r end.
Definition ly_of (tbl : list (Z * Z)) (y : Z) : option Z :=
  match tbl with [] => Some (ylen y) | _ => tbl_find (ext_key y) tbl end.

Definition c05_check (c : c05case) : Z :=
  let '(sd, sm, sy) := q_start c in let '(ed, em, ey) := q_end c in let '(ad, am) := q_annual c in
  match bounds_of sd sm sy ed em ey ad am with
  | None => 7
  | Some b =>
      let ernte := map (fun t : Z * Z * Z => let '(d, m, y) := t in
                          match masdat_num d m (y - 1900) with Some (_, n) => n | None => 0 end) (q_ernte c) in
      match run_events (ly_of (q_ly c)) (q_outint c) (b_outday b) ernte (q_anjahr c) (b_beginn b) (b_itag b) (b_ende b) with
      | None => if q_success c then 8 else 0
      | Some ev =>
          if negb (q_success c) then 8 else
          (if zs_same (daily_of ev) (q_daily c) then 0 else 1)
          + (if zs_same (annual_of ev) (q_annualobs c) then 0 else 2)
          + (if Z.of_nat (length (crop_of ev)) =? q_crop c then 0 else 4)
      end
  end.

Fixpoint c05_mismatches (i : nat) (cs : list c05case) : list (nat * Z) :=
  match cs with
  | [] => []
  | c :: r => let k := c05_check c in
              if k =? 0 then c05_mismatches (S i) r else (i, k) :: c05_mismatches (S i) r
  end.

(* field counts: a column = (Go type of the field VariableName names | None, sub-field, VarIndex1, VarIndex2) *)
Definition colspec := (option gotype * nat * nat * nat)%type.

Definition vref_of (c : colspec) : vref :=
  let '(t, sub, i1, i2) := c in bind t sub i1 i2.

(* observed: Some n = every record of the file has n fields, None = no record was written *)
Definition fields_check (csv : bool) (cols : list colspec) (observed : option Z) : bool :=
  match write_line csv (fun r => r) (map vref_of cols), observed with
  | Some fs, Some n => Z.of_nat (length fs) =? n
  | None, None => true
  | _, _ => false
  end.

Fixpoint fields_mismatches (i : nat) (cs : list (bool * list colspec * option Z)) : list nat :=
  match cs with
  | [] => []
  | (csv, cols, o) :: r => if fields_check csv cols o then fields_mismatches (S i) r else i :: fields_mismatches (S i) r
  end.
