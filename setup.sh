#!/bin/sh
# builds the Coq development (full .vo build) and warms the Go build cache; offline
set -e
cd "$(dirname "$0")"
python3 - <<'PY'
import sys; sys.path.insert(0, "lib")
import core
core.write_coqproject()
PY
cd coq
coq_makefile -f _CoqProject -o Makefile.coq
timeout 7200 make -f Makefile.coq -j16
cd ..
python3 - <<'PY'
import sys; sys.path.insert(0, "lib")
import core
c = core.Ctx("SETUP", "quick", 0)
print("harness:", c.harness())
PY
